(* C10 model server.  One case per stdin line, one result line on stdout.  All numbers are hex
   (optional leading '-').  Tokens are separated by blanks.

   X <mem> <stmt>*     run a straight-line program on the extracted model (Model/IndexCheck.v exec)
       mem : '-' or comma separated a=v pairs (value of the word / byte at address a; default 0)
       stmt: R <expr> | W <mk|-> <expr> | UT <off> <pb> <v> <d> | UN <v> <N|V> | M <n>
       expr: root <ty> <v> | idx <bits> <s|u> <mk|-> <iv> <expr>
       ty  : i<bytes> | z | a <n> <ty> | s <ty> | p <ty>
     -> OK <aborted:0|1> <event>*   with events P:A P:S P:U P:M<n> X:<code> L:<addr>:<w> S:<addr>:<w>
        or CRASH<site> / FUEL
   XF <fw><fz> <mem> <stmt>*   the same on Model/IndexCheckFixed.v execf (fw, fz in {0,1}: the fix
                               candidates C10-1 / C10-2 applied)
   KF <fw><fz> <bits> <ty>     -> known_class_f
   L <index> <ty>      -> lit_index_rejected                       0|1
   T <bits> <s|u>      -> idx_ty_accepted                          0|1
   D <m|->*            -> assign_discrims:  OK <d>* ovf=<0|1>
   K <bits> <ty>       -> known_class: wide | zst | -
   V <mk|->:<i> ... | <aval>   value-level spec (Spec/IndexCheckSpec.v lookup)
       aval: n <id> | A <k> <aval>^k | S <k> <aval>^k | P <aval>
     -> OK <obs>*  with obs m<n> abortA abortS found<id> *)
open BinNums
open Conv
open Convz
open IndexCheck
open IndexCheckFixed
open IndexCheckSpec

let z = z_of_hex
let hz = hex_of_z
let nopt s = if s = "-" then None else Some (n_of_int (int_of_z (z s)))

class stream (toks : string list) = object
  val mutable rest = toks
  method peek = match rest with [] -> "" | t :: _ -> t
  method next = match rest with [] -> failwith "eof" | t :: r -> rest <- r; t
  method empty = rest = []
end

let rec p_ty (s : stream) : ty =
  let t = s#next in
  if t = "z" then TZst
  else if t = "a" then (let n = z s#next in let u = p_ty s in TArr (n, u))
  else if t = "s" then TSlice (p_ty s)
  else if t = "p" then TPtr (p_ty s)
  else if String.length t > 1 && t.[0] = 'i' then TInt (z (String.sub t 1 (String.length t - 1)))
  else failwith ("bad type token " ^ t)

let p_ity (s : stream) : ity =
  let b = z s#next in
  let sg = s#next in
  { ibits = b; isigned = (sg = "s") }

let rec p_expr (s : stream) : expr =
  match s#next with
  | "root" -> let t = p_ty s in let v = z s#next in ERoot (t, v)
  | "idx" ->
    let it = p_ity s in
    let mk = nopt s#next in
    let iv = z s#next in
    let src = p_expr s in
    EIndex (src, it, mk, iv)
  | t -> failwith ("bad expr token " ^ t)

let rec p_stmts (s : stream) : stmt list =
  if s#empty then [] else
  let st = match s#next with
    | "R" -> SRead (p_expr s)
    | "W" -> let vm = nopt s#next in let e = p_expr s in SWrite (e, vm)
    | "UT" -> let off = z s#next in let pb = z s#next in let v = z s#next in let d = z s#next in
      SUnwrap (KTagged (off, pb), v, WVariant d)
    | "UN" -> let v = z s#next in let w = s#next in
      SUnwrap (KNullable, v, (if w = "N" then WNil else WVariant (z "1")))
    | "M" -> SMark (n_of_int (int_of_z (z s#next)))
    | t -> failwith ("bad stmt token " ^ t) in
  st :: p_stmts s

let mem_of (spec : string) : coq_Z -> coq_Z =
  let tbl = Hashtbl.create 64 in
  if spec <> "-" then
    List.iter (fun kv ->
      match split_on '=' kv with
      | [a; v] -> Hashtbl.replace tbl (hz (z a)) (z v)
      | _ -> failwith "bad mem cell") (split_on ',' spec);
  fun a -> match Hashtbl.find_opt tbl (hz a) with Some v -> v | None -> z "0"

let show_msg = function
  | MArrayOob -> "A" | MSliceOob -> "S" | MUnwrap -> "U"
  | MMarker n -> "M" ^ hex_of_n n

let show_ev = function
  | Print m -> "P:" ^ show_msg m
  | Exit c -> "X:" ^ hz c
  | Load (a, w) -> "L:" ^ hz a ^ ":" ^ hz w
  | Store (a, w) -> "S:" ^ hz a ^ ":" ^ hz w

let rec p_aval (s : stream) : aval =
  match s#next with
  | "n" -> AInt (z s#next)
  | "A" | "S" as k ->
    let n = int_of_z (z s#next) in
    let rec go i = if i = 0 then [] else let x = p_aval s in x :: go (i - 1) in
    AArr (k = "S", go n)
  | "P" -> APtr (p_aval s)
  | t -> failwith ("bad aval token " ^ t)

let show_obs = function
  | OMark n -> "m" ^ hex_of_n n
  | OAbort sl -> if sl then "abortS" else "abortA"
  | OFound id -> "found" ^ hz id

let handle (line : string) : string =
  match List.filter (fun s -> s <> "") (split_on ' ' (String.trim line)) with
  | "X" :: mem :: toks ->
    let rd = mem_of mem in
    let p = p_stmts (new stream toks) in
    (match exec rd rd p with
     | Util.Ok (tr, ab) ->
       String.concat " " ("OK" :: (if ab then "1" else "0") :: List.map show_ev tr)
     | Util.Crash s -> Printf.sprintf "CRASH%d" (int_of_n s)
     | Util.OutOfFuel -> "FUEL")
  | "XF" :: fl :: mem :: toks ->
    let fw = fl.[0] = '1' and fz = fl.[1] = '1' in
    let rd = mem_of mem in
    let p = p_stmts (new stream toks) in
    (match execf fw fz rd rd p with
     | Util.Ok (tr, ab) ->
       String.concat " " ("OK" :: (if ab then "1" else "0") :: List.map show_ev tr)
     | Util.Crash s -> Printf.sprintf "CRASH%d" (int_of_n s)
     | Util.OutOfFuel -> "FUEL")
  | "KF" :: fl :: b :: toks ->
    let fw = fl.[0] = '1' and fz = fl.[1] = '1' in
    let t = p_ty (new stream toks) in
    (match known_class_f fw fz { ibits = z b; isigned = false } t with
     | Some KWideIndex -> "wide" | Some KZeroSizedElem -> "zst" | None -> "-")
  | "L" :: idx :: toks ->
    let t = p_ty (new stream toks) in
    if lit_index_rejected t (z idx) then "1" else "0"
  | ["T"; b; sg] -> if idx_ty_accepted { ibits = z b; isigned = (sg = "s") } then "1" else "0"
  | "D" :: ms ->
    (match assign_discrims (List.map (fun m -> if m = "-" then None else Some (n_of_hex m)) ms) with
     | Util.Ok ds -> String.concat " " ("OK" :: List.map hex_of_n ds
                                        @ [if discrims_overflow ds then "ovf=1" else "ovf=0"])
     | Util.Crash s -> Printf.sprintf "CRASH%d" (int_of_n s)
     | Util.OutOfFuel -> "FUEL")
  | "K" :: b :: toks ->
    let t = p_ty (new stream toks) in
    (match known_class { ibits = z b; isigned = false } t with
     | Some KWideIndex -> "wide" | Some KZeroSizedElem -> "zst" | None -> "-")
  | "V" :: toks ->
    let rec split acc = function
      | "|" :: r -> (List.rev acc, r)
      | t :: r -> split (t :: acc) r
      | [] -> failwith "missing |" in
    let (path, vt) = split [] toks in
    let path = List.map (fun t -> match split_on ':' t with
      | [m; i] -> (nopt m, z i) | _ -> failwith "bad path elem") path in
    let v = p_aval (new stream vt) in
    (match lookup v path with
     | Util.Ok os -> String.concat " " ("OK" :: List.map show_obs os)
     | Util.Crash s -> Printf.sprintf "CRASH%d" (int_of_n s)
     | Util.OutOfFuel -> "FUEL")
  | _ -> "ERROR bad line"

let () =
  iter_lines (fun line ->
    print_endline (try handle line with e -> "ERROR " ^ Printexc.to_string e))
