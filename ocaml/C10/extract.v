From Capy Require Import Common.Util Model.IndexCheck Spec.IndexCheckSpec.
Require Extraction.
Require Import ExtrOcamlBasic.
Extraction Language OCaml.
Separate Extraction exec lit_index_rejected idx_ty_accepted assign_discrims known_class lookup discrims_overflow walk.
