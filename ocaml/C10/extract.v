From Capy Require Import Common.Util Model.IndexCheck Model.IndexCheckFixed Spec.IndexCheckSpec.
Require Extraction.
Require Import ExtrOcamlBasic.
Extraction Language OCaml.
Separate Extraction exec execf lit_index_rejected idx_ty_accepted assign_discrims known_class known_class_f
  lookup discrims_overflow walk.
