(* stdin line:  <fuel> <oracle bits, e.g. 0110 or -> <program tokens>
   program tokens (function body, prefix form):
     P c | D c | E ( items ) | B l | C l | R | T k (k = z|o|e: branch of the .try error path) | K l ( .. ) | L l w ( .. ) | I ( .. ) ( .. )
     E = defer of a jump-free block; items: P c | D c | E ( items )
   where c = char code, l = label number or '-', w = 1 (while cond) / 0 (loop).
   stdout line: spec=<r> model=<r> fixed=<r> hspec=<r> cls=<k1><k2><k3> err=<0|1>
   <r> = '"' chars '"' | CRASH<n> | FUEL *)
open Conv
open Defer

let parse (toks : string list) : stmt list =
  let rest = ref toks in
  let peek () = match !rest with [] -> "" | t :: _ -> t in
  let adv () = match !rest with [] -> failwith "eof" | t :: r -> rest := r; t in
  let lbl () = let t = adv () in if t = "-" then None else Some (n_of_int (int_of_string t)) in
  let rec stmts () =
    if peek () = "" || peek () = ")" then [] else let s = stmt () in s :: stmts ()
  and group () =
    (if adv () <> "(" then failwith "expected (");
    let l = stmts () in
    (if adv () <> ")" then failwith "expected )"); l
  and dblock () : dexpr =
    (if adv () <> "(" then failwith "expected (");
    let ps = ref [] and ds = ref [] in
    while peek () <> ")" do
      (match adv () with
       | "P" -> ps := n_of_int (int_of_string (adv ())) :: !ps
       | "D" -> ds := DAtom (n_of_int (int_of_string (adv ()))) :: !ds
       | "E" -> ds := dblock () :: !ds
       | t -> failwith ("bad defer item " ^ t))
    done;
    ignore (adv ());
    DBlock (List.rev !ps, List.rev !ds)
  and stmt () =
    match adv () with
    | "P" -> SPrint (n_of_int (int_of_string (adv ())))
    | "D" -> SDefer (DAtom (n_of_int (int_of_string (adv ()))))
    | "E" -> SDefer (dblock ())
    | "B" -> SBreak (lbl ())
    | "C" -> SContinue (lbl ())
    | "R" -> SReturn
    | "T" -> STry (match adv () with
                   | "z" -> TryZeroSized | "o" -> TryOptional | "e" -> TryError
                   | t -> failwith ("bad try kind " ^ t))
    | "K" -> let l = lbl () in SBlock (l, group ())
    | "L" -> let l = lbl () in let w = adv () = "1" in SLoop (l, w, group ())
    | "I" -> let a = group () in let b = group () in SIf (a, b)
    | t -> failwith ("bad token " ^ t) in
  let p = stmts () in
  if !rest <> [] then failwith "trailing tokens"; p

let show (r : BinNums.coq_N list Util.result) : string =
  match r with
  | Util.Ok t -> "\"" ^ String.concat "" (List.map (fun c -> String.make 1 (Char.chr (int_of_n c))) t) ^ "\""
  | Util.Crash s -> Printf.sprintf "CRASH%d" (int_of_n s)
  | Util.OutOfFuel -> "FUEL"

let () =
  iter_lines (fun line ->
    match List.filter (fun s -> s <> "") (split_on ' ' (String.trim line)) with
    | fuel :: bits :: toks ->
      (try
        let fuel = nat_of_int (int_of_string fuel) in
        let o = if bits = "-" then [] else List.init (String.length bits) (fun i -> bits.[i] = '1') in
        let p = parse toks in
        let (h, err) = lower_fn p in
        let ((k1, k2), k3) = DeferSpec.known_classes h in
        let b x = if x then "1" else "0" in
        print_endline (Printf.sprintf "spec=%s model=%s fixed=%s hspec=%s cls=%s%s%s err=%s"
          (show (DeferSpec.exec_fn fuel p o)) (show (model_fn fuel p o))
          (show (DeferFixed.model_fn_fx fuel p o)) (show (DeferSpec.hexec_fn fuel h o))
          (b k1) (b k2) (b k3) (b err))
      with e -> print_endline ("ERROR " ^ Printexc.to_string e))
    | _ -> print_endline "ERROR short line")
