From Capy Require Import Common.Util Model.Defer Model.DeferFixed Spec.DeferSpec.
Require Extraction.
Require Import ExtrOcamlBasic.
Extraction Language OCaml.
Separate Extraction lower_fn model_fn model_fn_fx exec_fn hexec_fn known_classes.
