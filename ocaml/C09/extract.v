From Capy Require Import Common.Util Common.Bits Model.Literals Spec.LitSpec Proofs.LiteralsProofs.
Require Extraction.
Require Import ExtrOcamlBasic.
Extraction Language OCaml.
Separate Extraction lower_dec lower_hex lower_bin lower_string lower_char accepted materialise observed default_ity
  final_ty dec_spec_exec radix_spec value_of escape_spec string_spec fits_ty accept_known_class dec_known_class default_known_class.
