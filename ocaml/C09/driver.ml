(* C09 line server.
   I <spelling>                  integer literal token -> "<model> <spec> <class>"  (hex value or REJ)
   A <sg><w> <nhex>              acceptance of value n at type (s|u)(8..128|255|0)
                                 -> "<accepted 0/1> <fits 0/1> <class> <bits hex> <observed hex, - if negative => -hex>"
   D <nhex>                      unannotated literal -> "<final sg><w> <observed> <class 0/1>"
   S <hex of utf8 of the token body components: see below>
     components are given as space separated items: e<hexcode> (escape) or l<hex bytes of contents (code points < 256 only, one byte each)>
                                 -> "<hex bytes> <ninvalid> <spec hex or REJ>"
   C <components>                char literal -> "<value> <diags>" *)
open Conv
open Convz
open Literals

let z = z_of_int
let dch_of c = if c = '_' then Us else Dg (z (Char.code c - 48))
let explode s = List.init (String.length s) (String.get s)
let hexdig c = match c with
  | '0'..'9' -> Char.code c - 48 | 'a'..'f' -> Char.code c - 87 | 'A'..'F' -> Char.code c - 55 | _ -> failwith "hexdig"
let show_opt = function Some v -> hex_of_z v | None -> "REJ"

let split_exp s =
  (* first 'e' or 'E' splits mantissa and exponent, as value.split(['e','E']) + next(), next() *)
  let n = String.length s in
  let rec find i = if i >= n then None else if s.[i] = 'e' || s.[i] = 'E' then Some i else find (i + 1) in
  match find 0 with
  | None -> s, None
  | Some i ->
    let rest = String.sub s (i + 1) (n - i - 1) in
    let rest = (match String.index_opt rest 'e', String.index_opt rest 'E' with
        | None, None -> rest
        | Some a, None | None, Some a -> String.sub rest 0 a
        | Some a, Some b -> String.sub rest 0 (min a b)) in
    String.sub s 0 i, Some rest

let comps items =
  List.map (fun it ->
    let body = String.sub it 1 (String.length it - 1) in
    if it.[0] = 'e' then Esc (z_of_hex body)
    else Lit (List.init (String.length body / 2) (fun i -> z (int_of_string ("0x" ^ String.sub body (2*i) 2))))) items

let ity_of s =
  let sg = s.[0] = 's' in
  IT (sg, z (int_of_string (String.sub s 1 (String.length s - 1))))

let show_signed v = hex_of_z v

(* argv[1] = three characters 0/1: fx_zero (C09-4), fx_i128 (C09-2), fx_isize (C09-3) repaired? *)
let vr =
  let f i = Array.length Sys.argv > 1 && String.length Sys.argv.(1) > i && Sys.argv.(1).[i] = '1' in
  { fx_zero = f 0; fx_i128 = f 1; fx_isize = f 2 }

let () =
  iter_lines (fun line ->
    let out =
      try
        match List.filter (fun s -> s <> "") (split_on ' ' (String.trim line)) with
        | ["I"; sp] ->
          if String.length sp > 2 && sp.[0] = '0' && sp.[1] = 'x' then begin
            let ds = List.map (fun c -> z (hexdig c)) (explode (String.sub sp 2 (String.length sp - 2))) in
            let spec = LiteralsProofs.radix_spec (z 16) ds in
            Printf.sprintf "%s %s 0" (show_opt (lower_hex ds)) (show_opt spec)
          end else if String.length sp > 2 && sp.[0] = '0' && sp.[1] = 'b' then begin
            let ds = List.map (fun c -> z (hexdig c)) (explode (String.sub sp 2 (String.length sp - 2))) in
            let spec = LiteralsProofs.radix_spec (z 2) ds in
            Printf.sprintf "%s %s 0" (show_opt (lower_bin ds)) (show_opt spec)
          end else begin
            let m, e = split_exp sp in
            let m = List.map dch_of (explode m) in
            let e = (match e with None -> None | Some e -> Some (List.map dch_of (explode e))) in
            Printf.sprintf "%s %s %d" (show_opt (lower_dec vr m e)) (show_opt (LiteralsProofs.dec_spec_exec m e))
              (if LiteralsProofs.dec_known_class vr m e then 1 else 0)
          end
        | ["A"; t; n] ->
          let t = ity_of t and n = z_of_hex n in
          Printf.sprintf "%d %d %s %s %s" (if accepted vr t n then 1 else 0) (if LiteralsProofs.fits_ty t n then 1 else 0)
            (match LiteralsProofs.accept_known_class vr t n with Some c -> string_of_int (int_of_n c) | None -> "-")
            (hex_of_z (materialise t n)) (show_signed (observed t n))
        | ["D"; n] ->
          let n = z_of_hex n in
          let t = default_ity n in
          let (sg, w) = final_ty t in
          Printf.sprintf "%s%d %s %d" (if sg then "s" else "u") (int_of_z w) (show_signed (observed t n))
            (if LiteralsProofs.default_known_class n then 1 else 0)
        | "S" :: items ->
          let cs = comps items in
          let (t, n) = lower_string cs in
          Printf.sprintf "x%s %d %s" (hex_of_bytes (List.map (fun v -> n_of_int (int_of_z v)) t)) (int_of_nat n)
            (match LiteralsProofs.string_spec cs with
             | Some t -> "=" ^ hex_of_bytes (List.map (fun v -> n_of_int (int_of_z v)) t) | None -> "REJ")
        | "C" :: items ->
          let cs = comps items in
          let (v, ds) = lower_char cs in
          Printf.sprintf "%s %s" (hex_of_z v)
            (String.concat "," (List.map (function InvalidEscapeD -> "InvalidEscape" | EmptyChar -> "EmptyCharLiteral"
                                                 | NonU8Char -> "NonU8CharLiteral" | TooManyChars -> "TooManyCharsInCharLiteral") ds))
        | _ -> "BADLINE"
      with Failure m -> "ERR:" ^ m | Invalid_argument m -> "ERR:" ^ m in
    print_endline out)
