From Capy Require Import Common.CapyCore.
Require Extraction.
Require Import ExtrOcamlBasic.
Extraction Language OCaml.
Separate Extraction eval_prog well_typed.
