(* stdin: "L <pw> <type description>" (grammar: harness/c17/src/typarse.rs) ->
     "<size> <align> <stride> O=<offs|-> D=<d|-> / <spec the same> / wf=<0|1> lens=<0|1> fits=<0|1>"
   where the first group is the extracted model of layout.rs ("CRASH<site>" on a
   modelled panic) and the second the specification Spec/CLayout.v.
   "P <offset> <align>" -> padding_needed_for.
   "C <k> <size> <align> ..." -> C layout of a struct of k scalar fields:
     "<sizeof> <alignof> O=<offsets>" *)
open Conv
open LTy

exception Bad of string

let parse_ty (toks : string list) : lty * string list =
  let rec ty = function
    | [] -> raise (Bad "end")
    | t :: r ->
      let num = function
        | x :: r -> (n_of_int (int_of_string x), r)
        | [] -> raise (Bad "num") in
      let rec many k r acc = if k = 0 then (List.rev acc, r) else
          let (x, r) = ty r in many (k - 1) r (x :: acc) in
      let rec members k r acc = if k = 0 then (List.rev acc, r) else
          let (n, r) = num r in let (x, r) = ty r in members (k - 1) r ((n, x) :: acc) in
      (match t with
       | "bool" -> (LBool, r) | "char" -> (LChar, r) | "str" -> (LString, r)
       | "type" -> (LType, r) | "any" -> (LAny, r)
       | "rawptr0" -> (LRawPtr false, r) | "rawptr1" -> (LRawPtr true, r)
       | "rawslice" -> (LRawSlice, r) | "void" -> (LVoid, r) | "nil" -> (LNil, r)
       | "never" -> (LAlwaysJumps, r) | "unknown" -> (LUnknown, r) | "nyr" -> (LNotYetResolved, r)
       | "aarr" -> let (n, r) = num r in let (s, r) = ty r in (LAnonArray (n, s), r)
       | "arr" -> let (n, r) = num r in let (s, r) = ty r in (LArray (n, s), r)
       | "slice" -> let (s, r) = ty r in (LSlice s, r)
       | "ptr0" -> let (s, r) = ty r in (LPointer (false, s), r)
       | "ptr1" -> let (s, r) = ty r in (LPointer (true, s), r)
       | "dist" -> let (u, r) = num r in let (s, r) = ty r in (LDistinct (u, s), r)
       | "polyfn" -> let (n, r) = num r in (LPolyFn n, r)
       | "fn" -> let (l, r) = num r in let (k, r) = num r in
         let (ps, r) = many (int_of_n k) r [] in let (ret, r) = ty r in (LFn (ps, ret, l), r)
       | "fnptr" -> let (k, r) = num r in
         let (ps, r) = many (int_of_n k) r [] in let (ret, r) = ty r in (LFnPtr (ps, ret), r)
       | "astruct" -> let (k, r) = num r in let (ms, r) = members (int_of_n k) r [] in (LAnonStruct ms, r)
       | "struct" -> let (u, r) = num r in let (k, r) = num r in
         let (ms, r) = members (int_of_n k) r [] in (LStruct (u, ms), r)
       | "enum" -> let (u, r) = num r in let (k, r) = num r in
         let (vs, r) = many (int_of_n k) r [] in (LEnum (u, vs), r)
       | "var" -> let (e, r) = num r in let (n, r) = num r in let (u, r) = num r in
         let (d, r) = num r in let (s, r) = ty r in (LVariant (e, n, u, d, s), r)
       | "opt" -> let (s, r) = ty r in (LOptional s, r)
       | "eu" -> let (e, r) = ty r in let (p, r) = ty r in (LErrorUnion (e, p), r)
       | _ ->
         let h = String.sub t 0 1 and rest = String.sub t 1 (String.length t - 1) in
         if h = "I" then (LIInt (n_of_int (int_of_string rest)), r)
         else if h = "U" then (LUInt (n_of_int (int_of_string rest)), r)
         else if h = "F" then (LFloat (n_of_int (int_of_string rest)), r)
         else if String.length t > 4 && String.sub t 0 4 = "file"
         then (LFile (n_of_int (int_of_string (String.sub t 4 (String.length t - 4)))), r)
         else raise (Bad t)) in
  ty toks

let show_n (n : BinNums.coq_N) : string =
  let h = hex_of_n n in
  if String.length h <= 14 then string_of_int (int_of_n n) else "0x" ^ h

let show_offs = function
  | None -> "-"
  | Some l -> String.concat "," (List.map show_n l)
let show_opt = function None -> "-" | Some d -> show_n d
let b2s b = if b then "1" else "0"

let () =
  iter_lines (fun line ->
    let toks = List.filter (fun s -> s <> "") (split_on ' ' (String.trim line)) in
    try
      match toks with
      | "L" :: pw :: rest ->
        let pw = n_of_int (int_of_string pw) in
        let (t, r) = parse_ty rest in
        if r <> [] then raise (Bad "trailing");
        let m = match Layout.layout_info pw t with
          | Util.Ok i -> Printf.sprintf "%s %s %s O=%s D=%s" (show_n i.Layout.i_size) (show_n i.Layout.i_align)
                           (show_n i.Layout.i_stride) (show_offs i.Layout.i_offsets) (show_opt i.Layout.i_discr)
          | Util.Crash s -> Printf.sprintf "CRASH%d" (int_of_n s)
          | Util.OutOfFuel -> "FUEL" in
        let s = Printf.sprintf "%s %s %s O=%s D=%s" (show_n (CLayout.isize pw t)) (show_n (CLayout.ialign pw t))
            (show_n (CLayout.istride pw t)) (show_offs (CLayout.ioffsets pw t)) (show_opt (CLayout.idiscr pw t)) in
        print_endline (Printf.sprintf "%s / %s / wf=%s lens=%s fits=%s" m s (b2s (CLayout.wfb t))
                         (b2s (CLayout.lens32 t)) (b2s (CLayout.fits pw t)))
      | ["P"; o; a] ->
        (match Layout.padding_needed_for (n_of_int (int_of_string o)) (n_of_int (int_of_string a)) with
         | Util.Ok p -> print_endline (show_n p)
         | Util.Crash s -> print_endline (Printf.sprintf "CRASH%d" (int_of_n s))
         | Util.OutOfFuel -> print_endline "FUEL")
      | "C" :: _k :: rest ->
        let rec pairs = function
          | s :: a :: r -> (n_of_int (int_of_string s), n_of_int (int_of_string a)) :: pairs r
          | _ -> [] in
        let fl = pairs rest in
        print_endline (Printf.sprintf "%s %s O=%s" (show_n (CLayout.c_sizeof fl)) (show_n (CLayout.c_alignof fl))
                         (show_offs (Some (CLayout.c_offsetof fl))))
      | _ -> print_endline "BAD"
    with Bad m -> print_endline ("BAD:" ^ m) | Failure m -> print_endline ("BAD:" ^ m))
