From Capy Require Import Common.Util Common.LTy Common.Layout Spec.CLayout.
Require Extraction.
Require Import ExtrOcamlBasic.
Extraction Language OCaml.
Separate Extraction layout_info padding_needed_for ideal isize ialign istride ioffsets idiscr
  wfb lens32 fits known_class c_offsetof c_sizeof c_alignof lty_eqb N.to_nat N.of_nat.
