(* stdin: "<sig>" or "<sig>\t<implementation render>"; sig = "<ret>|<p1>|..." (see harness/c19).
   stdout: "<model render>\t<abi_ok model>\t<abi_ok implementation or ->\t<spec placement>"
   model render mirrors FnAbi::verif_render; a model crash prints CRASH<site>. *)
open Conv
open CAbiTy
open Abi

let scalar_of = function
  | "i8" | "u8" -> Some I8 | "i16" | "u16" -> Some I16 | "i32" | "u32" -> Some I32
  | "i64" | "u64" | "isize" | "usize" -> Some I64 | "f32" -> Some F32 | "f64" -> Some F64
  | "bool" -> Some BoolT | "char" -> Some CharT | "ptr" -> Some Ptr | "optptr" -> Some OptPtr
  | _ -> None

let split_top s =
  let out = ref [] and depth = ref 0 and start = ref 0 in
  String.iteri (fun i c ->
    match c with
    | '{' -> incr depth | '}' -> decr depth
    | ',' when !depth = 0 -> out := String.sub s !start (i - !start) :: !out; start := i + 1
    | _ -> ()) s;
  if !start < String.length s then out := String.sub s !start (String.length s - !start) :: !out;
  List.rev !out

let rec parse_f s =
  let s = String.trim s in
  match scalar_of s with
  | Some sc -> FS sc
  | None ->
    if String.length s > 0 && s.[0] = '[' then begin
      let close = String.index s ']' in
      let n = int_of_string (String.sub s 1 (close - 1)) in
      FA (n_of_int n, parse_f (String.sub s (close + 1) (String.length s - close - 1)))
    end else failwith ("bad field " ^ s)

let parse_a s =
  let s = String.trim s in
  match scalar_of s with
  | Some sc -> AS sc
  | None ->
    let n = String.length s in
    if n >= 2 && s.[0] = '{' && s.[n-1] = '}' then
      AStruct (List.map parse_f (split_top (String.sub s 1 (n - 2))))
    else failwith ("bad type " ^ s)

let clty_name = function
  | CI8 -> "i8" | CI16 -> "i16" | CI32 -> "i32" | CI64 -> "i64" | CI128 -> "i128" | CF32 -> "f32" | CF64 -> "f64"
let clty_of = function
  | "i8" -> CI8 | "i16" -> CI16 | "i32" -> CI32 | "i64" -> CI64 | "i128" -> CI128 | "f32" -> CF32 | "f64" -> CF64
  | s -> failwith ("bad clty " ^ s)

let mode_str = function
  | Cast tys -> "cast[" ^ String.concat "," (List.map clty_name tys) ^ "]"
  | Direct t -> "direct[" ^ clty_name t ^ "]"
  | Indirect (Some sz) -> Printf.sprintf "byval[%d]" (int_of_n sz)
  | Indirect None -> "indirect"

let render a =
  let args = List.map (fun (m, i) -> Printf.sprintf "%s@%d" (mode_str m) (int_of_n i)) a.fa_args in
  let ret = match a.fa_ret with Some m -> mode_str m | None -> "none" in
  Printf.sprintf "ret=%s args=%s" ret (String.concat ";" args)

let parse_mode s =
  if s = "indirect" then Indirect None
  else if s = "none" then failwith "none"
  else begin
    let lb = String.index s '[' in
    let kind = String.sub s 0 lb in
    let inner = String.sub s (lb + 1) (String.length s - lb - 2) in
    match kind with
    | "cast" -> Cast (List.map clty_of (List.filter (fun x -> x <> "") (split_on ',' inner)))
    | "direct" -> Direct (clty_of inner)
    | "byval" -> Indirect (Some (n_of_int (int_of_string inner)))
    | _ -> failwith ("bad mode " ^ s)
  end

(* "ret=<m> args=<m>@i;<m>@i" *)
let parse_render s =
  let s = String.trim s in
  let sp = String.index s ' ' in
  let r = String.sub s 4 (sp - 4) in
  let a = String.sub s (sp + 6) (String.length s - sp - 6) in
  let ret = if r = "none" then None else Some (parse_mode r) in
  let args = List.map (fun x ->
      let at = String.rindex x '@' in
      (parse_mode (String.sub x 0 at), n_of_int (int_of_string (String.sub x (at + 1) (String.length x - at - 1)))))
      (List.filter (fun x -> x <> "") (split_on ';' a)) in
  { fa_args = args; fa_ret = ret }

let loc_str = function
  | RInt k -> Printf.sprintf "int%d" (int_of_n k)
  | RSse k -> Printf.sprintf "sse%d" (int_of_n k)
  | Stack o -> Printf.sprintf "stack%d" (int_of_n o)
let pieces_str ps =
  String.concat "+" (List.map (fun ((l, o), w) -> Printf.sprintf "%s:%d:%d" (loc_str l) (int_of_n o) (int_of_n w)) ps)
let placement_str p =
  Printf.sprintf "sret=%b ret=%s args=%s" p.pl_sret (pieces_str p.pl_ret)
    (String.concat ";" (List.map (fun (i, ps) -> Printf.sprintf "%d@%s" (int_of_n i) (pieces_str ps)) p.pl_args))

let () =
  iter_lines (fun line ->
    let sg, impl = match split_on '\t' line with
      | [a] -> a, None | a :: b :: _ -> a, Some b | [] -> "", None in
    try
      let parts = List.filter (fun x -> String.trim x <> "") (split_on '|' sg) in
      let ret, ps = match parts with [] -> "void", [] | r :: ps -> r, ps in
      let ret = if String.trim ret = "void" then RVoid else RT (parse_a ret) in
      let ps = List.map parse_a ps in
      let b2s b = if b then "T" else "F" in
      let m, mok = match fn_ty_to_abi ps ret with
        | Util.Ok a -> render a, b2s (SysV.abi_ok ps ret a)
        | Util.Crash s -> Printf.sprintf "CRASH%d" (int_of_n s), "F"
        | Util.OutOfFuel -> "FUEL", "F" in
      let iok = match impl with
        | None -> "-"
        | Some r -> (try b2s (SysV.abi_ok ps ret (parse_render r)) with _ -> "F") in
      print_endline (String.concat "\t" [m; mok; iok; placement_str (SysV.sysv_place ps ret)])
    with e -> print_endline ("ERR:" ^ Printexc.to_string e))
