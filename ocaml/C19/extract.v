From Capy Require Import Common.Util Common.CAbiTy Model.Abi Spec.SysV.
Require Extraction.
Require Import ExtrOcamlBasic.
Extraction Language OCaml.
Separate Extraction fn_ty_to_abi abi_ok place sysv_place sysv_classify classify_arg asize astride c_sizeof word_offsets.
