From Capy Require Import Common.Util Model.Topo Spec.Sched.
Require Extraction.
Require Import ExtrOcamlBasic.
Extraction Language OCaml.
Separate Extraction
  empty insert_dep insert_deps insert extend remove peek peek_all pop pop_all in_cycle
  peek_all_cyclic peek_cyclic pop_cyclic pop_all_cyclic len is_empty clear keys
  run_round run client_offer
  a_seed a_round a_run ready offer usage_okb protocol_okb pending done waits.
