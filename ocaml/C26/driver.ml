(* C26 model driver.  One case per stdin line, one result line on stdout.

   "ops <op> <op> ..."   drive the extracted TopoSort model through an API call
       sequence; after every op print  ret|len|peek_all|peek_all_cyclic|drain
       (joined with ';'), exactly as harness/c26 prints for the real crate.
       A model Crash prints PANIC and ends the line (the Rust object is poisoned
       after a caught panic, nothing more is compared).
       ops:  D p c | M p n c1..cn | I x | X n x1..xn | R x | k | K | o | O | y | c | C | q | Q | n | e | z
   "hist <seed items> / <ev> <ev> / ..."   ev = Rx (x completes) | Dx:c1,c2 (x registers deps)
       print  U=<usage_okb> P=<protocol_okb> then for the state after the seed and
       after every round  " | m:<peek_all>,<peek_all_cyclic>,<len> s:<same, computed from the abstract scheduler>". *)
open Conv
open Topo

let ni = n_of_int and inn = int_of_n
let lst l = "[" ^ String.concat "," (List.map (fun x -> string_of_int (inn x)) l) ^ "]"
let b2s b = if b then "t" else "f"
let peek_res_s = function PeekOk l -> "ok" ^ lst l | PeekCycle -> "cyc"
let peek1_s = function Peek1None -> "-" | Peek1Ok x -> "ok" ^ string_of_int (inn x) | Peek1Cycle -> "cyc"
let opt_l = function None -> "-" | Some l -> lst l
let opt_i = function None -> "-" | Some x -> string_of_int (inn x)

exception Model_crash

let ok = function Util.Ok a -> a | _ -> raise Model_crash

let drain t =
  let buf = Buffer.create 32 in
  let rec go t fuel =
    if fuel = 0 then Buffer.add_string buf "FUEL" else
    match pop_all t with
    | Util.Ok (t', PeekOk []) -> ignore t'
    | Util.Ok (t', PeekOk l) -> Buffer.add_string buf (lst l); go t' (fuel - 1)
    | Util.Ok (t', PeekCycle) ->
      let (t'', r) = pop_all_cyclic t' in
      Buffer.add_string buf ("!" ^ opt_l r); go t'' (fuel - 1)
    | _ -> Buffer.add_string buf "PANIC" in
  go t (List.length t + 2);
  Buffer.contents buf

let obs t ret =
  Printf.sprintf "%s|%d|%s|%s|%s" ret (inn (len t)) (peek_res_s (peek_all t)) (opt_l (peek_all_cyclic t)) (drain t)

let run_ops toks =
  let out = ref [] in
  let t = ref empty in
  let rec take n l acc = if n = 0 then (List.rev acc, l) else
      match l with x :: r -> take (n - 1) r (ni (int_of_string x) :: acc) | [] -> failwith "short" in
  let rec go = function
    | [] -> ()
    | op :: rest ->
      let (ret, rest) =
        match op, rest with
        | "D", p :: c :: r -> t := insert_dep !t (ni (int_of_string p)) (ni (int_of_string c)); ("", r)
        | "M", p :: n :: r -> let (cs, r) = take (int_of_string n) r [] in
          t := insert_deps !t (ni (int_of_string p)) cs; ("", r)
        | "I", x :: r -> let (t', b) = insert !t (ni (int_of_string x)) in t := t'; (b2s b, r)
        | "X", n :: r -> let (xs, r) = take (int_of_string n) r [] in t := extend !t xs; ("", r)
        | "R", x :: r -> let (t', b) = ok (remove !t (ni (int_of_string x))) in t := t'; (b2s b, r)
        | "k", r -> (peek1_s (peek !t), r)
        | "K", r -> (peek_res_s (peek_all !t), r)
        | "o", r -> let (t', x) = ok (pop !t) in t := t'; (peek1_s x, r)
        | "O", r -> let (t', x) = ok (pop_all !t) in t := t'; (peek_res_s x, r)
        | "y", r -> (b2s (in_cycle !t), r)
        | "c", r -> (opt_i (peek_cyclic !t), r)
        | "C", r -> (opt_l (peek_all_cyclic !t), r)
        | "q", r -> let (t', x) = ok (pop_cyclic !t) in t := t'; (opt_i x, r)
        | "Q", r -> let (t', x) = pop_all_cyclic !t in t := t'; (opt_l x, r)
        | "n", r -> (string_of_int (inn (len !t)), r)
        | "e", r -> (b2s (is_empty !t), r)
        | "z", r -> t := clear !t; ("", r)
        | _ -> failwith ("bad op " ^ op) in
      out := obs !t ret :: !out;
      go rest in
  (try go toks with Model_crash -> out := "PANIC" :: !out);
  String.concat ";" (List.rev !out)

let parse_event s =
  let x_of s = ni (int_of_string s) in
  if s.[0] = 'R' then (x_of (String.sub s 1 (String.length s - 1)), Complete)
  else
    match String.split_on_char ':' (String.sub s 1 (String.length s - 1)) with
    | [x; ds] ->
      let ds = List.filter (fun s -> s <> "") (String.split_on_char ',' ds) in
      (x_of x, Register (List.map x_of ds))
    | _ -> failwith "bad event"

let run_hist toks =
  let groups = List.map (fun g -> List.filter (fun s -> s <> "") (String.split_on_char ' ' g))
      (String.split_on_char '/' (String.concat " " toks)) in
  let seed, rounds = match groups with [] -> [], [] | s :: r -> List.map (fun x -> ni (int_of_string x)) s, r in
  let rounds = List.map (List.map parse_event) rounds in
  let s0 = Sched.a_seed seed in
  let buf = Buffer.create 128 in
  Buffer.add_string buf (Printf.sprintf "U=%s P=%s" (b2s (Sched.usage_okb s0 rounds)) (b2s (Sched.protocol_okb s0 rounds)));
  let boundary t s =
    let m = match t with
      | Some t -> Printf.sprintf "%s,%s,%d" (peek_res_s (peek_all t)) (opt_l (peek_all_cyclic t)) (inn (len t))
      | None -> "CRASH" in
    let rd = Sched.ready s and pe = Sched.pending s in
    let cyc = pe <> [] && rd = [] in
    let sp = Printf.sprintf "%s,%s,%d" (if cyc then "cyc" else "ok" ^ lst rd) (if cyc then lst pe else "-") (List.length pe) in
    Buffer.add_string buf (Printf.sprintf " | m:%s s:%s" m sp) in
  let t = ref (Some (extend empty seed)) and s = ref s0 in
  boundary !t !s;
  List.iter (fun r ->
      (t := match !t with
          | Some t0 -> (match run_round t0 r with Util.Ok t1 -> Some t1 | _ -> None)
          | None -> None);
      s := Sched.a_round !s r;
      boundary !t !s) rounds;
  Buffer.contents buf

let () =
  iter_lines (fun line ->
      let toks = List.filter (fun s -> s <> "") (split_on ' ' (String.trim line)) in
      let res = try
          (match toks with
           | "ops" :: r -> run_ops r
           | "hist" :: r -> run_hist r
           | _ -> "BADLINE")
        with Failure m -> "BAD:" ^ m in
      print_endline res)
