From Capy Require Import Common.Util Model.Footprint Spec.FootprintSpec Proofs.FootprintProofs.
Require Extraction.
Require Import ExtrOcamlBasic.
Extraction Language OCaml.
Separate Extraction footprint footprint_sz dest_size known_class known_class_sz within hi.
