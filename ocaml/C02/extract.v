From Capy Require Import Common.Util Model.Footprint Spec.FootprintSpec Proofs.FootprintProofs.
Require Extraction.
Require Import ExtrOcamlBasic.
Extraction Language OCaml.
Separate Extraction footprint dest_size known_class within hi.
