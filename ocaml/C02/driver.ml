(* stdin, one operation per line (numbers in decimal, booleans 0/1):
     copy  <size> <stride> <agg> <bytes> <on_stack>
     venum <size> <discr_off> <payload> <on_stack>     payload = none | <size>,<stride>,<agg>,<bytes>
     union <size> <discr_off> <payload> <on_stack>
     nil   <size> <discr_off> <non_zero>
     memset <size> <stride> <on_stack>
     cast  <size> <w1>,<w2>,...
     byval <sz>
   stdout: "hi8=<n> class8=<c|-> within8=<T|F> hi1=<n> class1=<c|-> within1=<T|F>"
   (8 = pointer-width tag store (before fix 38e2441); 1 = tag stored as one byte (the code as it is);
    S = additionally aggregates copied with `size` bytes: fix candidate C02-2/3) *)
open Conv
open Footprint
open FootprintProofs

let b s = s = "1"
let n s = n_of_int (int_of_string s)
let vlay sz st ag by = { v_size = n sz; v_stride = n st; v_agg = b ag; v_bytes = n by }
let payload s =
  if s = "none" then None
  else match split_on ',' s with
    | [sz; st; ag; by] -> Some (vlay sz st ag by)
    | _ -> failwith "payload"

let parse line =
  match List.filter (fun x -> x <> "") (split_on ' ' (String.trim line)) with
  | ["copy"; sz; st; ag; by; s] -> OpCopy (n sz, vlay sz st ag by, b s)
  | ["venum"; sz; d; p; s] -> OpVariantToEnum (n sz, n d, payload p, b s)
  | ["union"; sz; d; p; s] -> OpPayloadToUnion (n sz, n d, payload p, b s)
  | ["nil"; sz; d; nz] -> OpNil (n sz, n d, b nz)
  | ["memset"; sz; st; s] -> OpMemset (vlay sz st "1" "8", b s)
  | ["cast"; sz; ws] -> OpCastStore (n sz, List.map n (split_on ',' ws))
  | ["byval"; sz] -> OpByvalCopy (n sz)
  | _ -> failwith "bad op"

let () =
  iter_lines (fun line ->
    try
      let o = parse line in
      let one tw tag =
        let tw = n_of_int tw in
        let fp = footprint tw o in
        Printf.sprintf "hi%s=%d class%s=%s within%s=%s" tag (int_of_n (FootprintSpec.hi fp))
          tag (match known_class tw o with Some c -> string_of_int (int_of_n c) | None -> "-")
          tag (if FootprintSpec.within (dest_size o) fp then "T" else "F") in
      let fixed =
        let fp = footprint_sz (n_of_int 1) o in
        Printf.sprintf "hiS=%d classS=%s withinS=%s" (int_of_n (FootprintSpec.hi fp))
          (match known_class_sz o with Some c -> string_of_int (int_of_n c) | None -> "-")
          (if FootprintSpec.within (dest_size o) fp then "T" else "F") in
      print_endline (one 8 "8" ^ " " ^ one 1 "1" ^ " " ^ fixed)
    with e -> print_endline ("ERR:" ^ Printexc.to_string e))
