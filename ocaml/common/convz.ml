(* Trusted glue for extracted Z; needs BinNums.coq_Z to be extracted. *)
open BinNums
open Conv
let z_of_int (n : int) : coq_Z =
  if n = 0 then Z0 else if n > 0 then Zpos (pos_of_int n) else Zneg (pos_of_int (-n))
let int_of_z = function Z0 -> 0 | Zpos p -> int_of_pos p | Zneg p -> - (int_of_pos p)

let z_of_hex (s : string) : coq_Z =
  if String.length s > 0 && s.[0] = '-' then
    (match n_of_hex (String.sub s 1 (String.length s - 1)) with N0 -> Z0 | Npos p -> Zneg p)
  else (match n_of_hex s with N0 -> Z0 | Npos p -> Zpos p)

let hex_of_z = function
  | Z0 -> "0" | Zpos p -> hex_of_n (Npos p) | Zneg p -> "-" ^ hex_of_n (Npos p)

