(* Trusted glue: conversions between OCaml ints/strings and the extracted
   inductive numbers.  Compiled against each property's gen/ directory.
   Requires extracted modules Datatypes (nat) and BinNums (positive, coq_N, coq_Z). *)
open Datatypes
open BinNums
module List = Stdlib.List
module String = Stdlib.String
module Char = Stdlib.Char
module Buffer = Stdlib.Buffer
module Printf = Stdlib.Printf
module Hashtbl = Stdlib.Hashtbl
module Array = Stdlib.Array
module Bytes = Stdlib.Bytes

let rec nat_of_int (n : int) : nat =
  (* iterative to avoid stack use on large offsets *)
  let r = ref O in
  for _ = 1 to n do r := S !r done; !r

let int_of_nat (n : nat) : int =
  let rec go acc = function O -> acc | S m -> go (acc + 1) m in go 0 n

let rec pos_of_int (n : int) : positive =
  if n <= 1 then Coq_xH
  else if n land 1 = 0 then Coq_xO (pos_of_int (n lsr 1))
  else Coq_xI (pos_of_int (n lsr 1))

let rec int_of_pos = function
  | Coq_xH -> 1
  | Coq_xO p -> 2 * int_of_pos p
  | Coq_xI p -> 2 * int_of_pos p + 1

let n_of_int (n : int) : coq_N = if n = 0 then N0 else Npos (pos_of_int n)
let int_of_n = function N0 -> 0 | Npos p -> int_of_pos p

(* arbitrary precision through decimal strings, for values beyond 62 bits *)
let rec pos_of_bits (bits : bool list) : positive =
  (* bits: least significant first, last must be true *)
  match bits with
  | [] | [_] -> Coq_xH
  | b :: r -> if b then Coq_xI (pos_of_bits r) else Coq_xO (pos_of_bits r)

(* hex string (no prefix, possibly empty = 0) -> N *)
let n_of_hex (s : string) : coq_N =
  let bits = ref [] in
  (* most significant first in string; build lsb-first list *)
  String.iter (fun c ->
    let v = match c with
      | '0'..'9' -> Char.code c - 48
      | 'a'..'f' -> Char.code c - 87
      | 'A'..'F' -> Char.code c - 55
      | _ -> failwith "n_of_hex" in
    bits := (v land 1 = 1) :: (v land 2 = 2) :: (v land 4 = 4) :: (v land 8 = 8) :: !bits) s;
  (* !bits is now lsb-first? we consed msb nibbles first, so the list head is the
     last nibble's bit0: yes lsb-first *)
  let rec strip = function
    | [] -> []
    | l -> (match List.rev l with
            | false :: r -> strip (List.rev r)
            | _ -> l) in
  match strip !bits with
  | [] -> N0
  | l -> Npos (pos_of_bits l)

let hex_of_n (n : coq_N) : string =
  match n with
  | N0 -> "0"
  | Npos p ->
    let rec bits p = match p with
      | Coq_xH -> [true]
      | Coq_xO q -> false :: bits q
      | Coq_xI q -> true :: bits q in
    let l = bits p in
    let rec nibbles l = match l with
      | [] -> []
      | a :: b :: c :: d :: r -> ((if a then 1 else 0) + (if b then 2 else 0) + (if c then 4 else 0) + (if d then 8 else 0)) :: nibbles r
      | l -> nibbles (l @ [false]) in
    let ns = List.rev (nibbles l) in
    String.concat "" (List.map (Printf.sprintf "%x") ns)

(* bytes of a hex-encoded string -> list of N *)
let bytes_of_hex (s : string) : coq_N list =
  let n = String.length s / 2 in
  List.init n (fun i -> n_of_int (int_of_string ("0x" ^ String.sub s (2*i) 2)))

let hex_of_bytes (l : coq_N list) : string =
  String.concat "" (List.map (fun b -> Printf.sprintf "%02x" (int_of_n b)) l)

let split_on c s = String.split_on_char c s

(* one result line per input line, whatever happens: an exception in the glue or the
   extracted code while processing a line (e.g. an implementation string of an unexpected
   shape) is reported as that line's result instead of killing the driver *)
let iter_lines (f : string -> unit) : unit =
  (try
     while true do
       let line = input_line stdin in
       (try f line with
        | End_of_file -> raise End_of_file
        | Stack_overflow -> print_endline "!EXN:Stack_overflow"
        | e -> print_endline ("!EXN:" ^ Stdlib.Printexc.to_string e))
     done
   with End_of_file -> ());
  flush stdout
