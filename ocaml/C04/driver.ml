(* C04 model driver.  One case per stdin line, one result line on stdout.
     val <ty> <hexvalue> <hexupper> <hexuninit-bytes>   scalar value (bit pattern) of type ty
     agg <ty> <hexbytes> <hexupper> <hexuninit-bytes>   aggregate value (object bytes)
     cls <ty>                                           guard / contains_ptr / known_class / size / align
     f32 <hexbits>                                      promote, demote(promote), is_nan
     dem <hexbits64>                                    demote
   <ty>: '.'-separated prefix tokens:
     i8 u8 .. i128 u128 isize usize wint wuint f32 f64 wfloat bool char str type void nil
     arr.<n>.T anonarr.<n>.T struct.<k>.T1..Tk enum.<k>.T1..Tk variant.T opt.T eu.E.P
     ptr.T rawptr slice.T rawslice any fn fnptr distinct.T
   Output for val/agg:  L=<obs> G=<obs> R=<obs>   (local path, global path, run-time reference)
     <obs> = num:<clty>:<hex> | addr:<hexbytes> | none | CRASH<site> | FUEL *)
open Conv
open Convz
open Comptime

let parse_ty (s : string) : ty =
  let toks = ref (String.split_on_char '.' s) in
  let next () = match !toks with [] -> failwith "ty: eof" | t :: r -> toks := r; t in
  let rec go () : ty =
    let t = next () in
    let int_ty signed w = TInt (signed, n_of_int w) in
    match t with
    | "i8" -> int_ty true 8 | "i16" -> int_ty true 16 | "i32" -> int_ty true 32 | "i64" -> int_ty true 64
    | "i128" -> int_ty true 128 | "isize" -> int_ty true 255 | "wint" -> int_ty true 0
    | "u8" -> int_ty false 8 | "u16" -> int_ty false 16 | "u32" -> int_ty false 32 | "u64" -> int_ty false 64
    | "u128" -> int_ty false 128 | "usize" -> int_ty false 255 | "wuint" -> int_ty false 0
    | "f32" -> TFloat (n_of_int 32) | "f64" -> TFloat (n_of_int 64) | "wfloat" -> TFloat (n_of_int 0)
    | "bool" -> TBool | "char" -> TChar | "str" -> TStr | "type" -> TType | "void" -> TVoid | "nil" -> TNil
    | "arr" -> let n = int_of_string (next ()) in let e = go () in TArray (false, n_of_int n, e)
    | "anonarr" -> let n = int_of_string (next ()) in let e = go () in TArray (true, n_of_int n, e)
    | "struct" -> let k = int_of_string (next ()) in TStruct (List.init k (fun _ -> go ()))
    | "enum" -> let k = int_of_string (next ()) in TEnum (List.init k (fun _ -> go ()))
    | "variant" -> TVariant (go ())
    | "opt" -> TOptional (go ())
    | "eu" -> let e = go () in let p = go () in TErrUnion (e, p)
    | "ptr" -> TPtr (go ())
    | "rawptr" -> TRawPtr | "slice" -> TSlice (go ()) | "rawslice" -> TRawSlice | "any" -> TAny
    | "fn" -> TFn | "fnptr" -> TFnPtr
    | "distinct" -> TDistinct (go ())
    | _ -> failwith ("ty: " ^ t) in
  go ()

let bytes_z (hex : string) = List.map (fun n -> z_of_int (int_of_n n)) (bytes_of_hex hex)
let hex_bytes (l : BinNums.coq_Z list) =
  String.concat "" (List.map (fun z -> Printf.sprintf "%02x" (int_of_z z)) l)

let cl_name = function I8 -> "i8" | I16 -> "i16" | I32 -> "i32" | I64 -> "i64" | I128 -> "i128"
                     | F32 -> "f32" | F64 -> "f64"

let show = function
  | Util.Ok (ONum (c, z)) -> Printf.sprintf "num:%s:%s" (cl_name c) (hex_of_z z)
  | Util.Ok (OAddr b) -> "addr:" ^ hex_bytes b
  | Util.Ok ONone -> "none"
  | Util.Crash s -> Printf.sprintf "CRASH%d" (int_of_n s)
  | Util.OutOfFuel -> "FUEL"

let kname = function KStr -> "comptime-result-str" | KFatPointer -> "comptime-result-fat-pointer"
                   | KOptionalPointer -> "comptime-result-optional-pointer"
                   | KAggregateWithPointer -> "comptime-result-aggregate-with-pointer"

let b2s b = if b then "1" else "0"

let () =
  iter_lines (fun line ->
    try
      let parts = List.filter (fun s -> s <> "") (split_on ' ' (String.trim line)) in
      let tid (_ : ty) = z_of_int 0 in
      match parts with
      | [op; tys; v; up; un] when op = "val" || op = "agg" ->
        let t = parse_ty tys in
        let v = if op = "val" then VNum (z_of_hex v) else VAgg (bytes_z (if v = "-" then "" else v)) in
        let g = { g_upper = z_of_hex up; g_fupper = z_of_hex up; g_uninit = bytes_z (if un = "-" then "" else un) } in
        print_endline (Printf.sprintf "L=%s G=%s R=%s"
          (show (pipeline_local [] tid t v g)) (show (pipeline_global [] tid t v g)) (show (observe_runtime t v)))
      | ["cls"; tys] ->
        let t = parse_ty tys in
        print_endline (Printf.sprintf "guard=%s ptr=%s class=%s size=%d align=%d"
          (b2s (guard t)) (b2s (contains_ptr t))
          (match known_class t with None -> "-" | Some k -> kname k)
          (int_of_n (size_of t)) (int_of_n (align_of t)))
      | ["f32"; h] ->
        let b = z_of_hex h in
        print_endline (Printf.sprintf "promote=%s roundtrip=%s nan=%s" (hex_of_z (promote b))
          (hex_of_z (demote (promote b))) (b2s (is_nan32 b)))
      | ["dem"; h] ->
        print_endline (Printf.sprintf "demote=%s" (hex_of_z (demote (z_of_hex h))))
      | _ -> print_endline "ERROR:bad-line"
    with e -> print_endline ("ERROR:" ^ Printexc.to_string e))
