From Capy Require Import Common.Util Model.Comptime.
Require Extraction.
Require Import ExtrOcamlBasic.
Extraction Language OCaml.
Separate Extraction pipeline_local pipeline_global observe_runtime known_class guard contains_ptr
  size_of align_of promote demote is_nan32 lower_comptime runs_body to_run.
