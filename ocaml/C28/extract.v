From Capy Require Import Common.Util Model.Mangle Model.Imports.
Require Extraction.
Require Import ExtrOcamlBasic.
Extraction Language OCaml.
Separate Extraction compile_all lower_import resolve imports_of.
