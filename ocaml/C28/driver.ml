(* C28 model driver.  One directory tree + program per line, tab separated; paths and
   strings hex encoded UTF-8, absolute paths split at '/' (glue):
     <cwd> <mod_dir> <main file> <fs: F<path>|D<path> comma separated> <program> [<fixed 0/1>]
       fixed: which code variant is modelled (cfg.c_fixed; default 0 = pinned commit, `#mod("")` passes the name test)
     program: <file>=<dir>,<dir>..;<file>=...   dir: I<str> | M<str> | i<n> | m<n> | IX | MX | I- | M-
       (i<n>/m<n>: n <> 1 arguments, IX/MX: non-string argument, I-/M-: no argument list)
   Output: E:<compiled files in order, comma separated | CRASH<n> | FUEL> then for every file of the
   program in input order  |<file>=<outcome>,..   outcome: A<path> | R<code>[:<path>]
   codes: silent argcount nonstring modnotalnum modmissing modnofile notcapy notfound outside *)
open Conv
open Imports

let bytes s = bytes_of_hex s
let path s =
  let b = bytes s in
  let rec go cur acc = function
    | [] -> List.rev (if cur = [] then acc else List.rev cur :: acc)
    | c :: r -> if int_of_n c = 47 then go [] (if cur = [] then acc else List.rev cur :: acc) r
                else go (c :: cur) acc r in
  go [] [] b
let unpath (p : BinNums.coq_N list list) : string =
  String.concat "" (List.map (fun c -> "2f" ^ hex_of_bytes c) p)

let directive s =
  let k = s.[0] and rest = String.sub s 1 (String.length s - 1) in
  let is_mod = (k = 'M' || k = 'm') in
  let a =
    if k = 'i' || k = 'm' then ACount (n_of_int (int_of_string rest))
    else if rest = "X" then ANonString
    else if rest = "-" then ANoArgList
    else AStr (bytes rest) in
  { dir_is_mod = is_mod; dir_arg = a }

let outcome = function
  | Accept p -> "A" ^ unpath p
  | Reject r ->
    (match r with
     | RMissingSilently -> "Rsilent" | RArgCount -> "Rargcount" | RNonString -> "Rnonstring"
     | RModNotAlnum -> "Rmodnotalnum" | RModMissing -> "Rmodmissing" | RModNoFile -> "Rmodnofile"
     | RNotCapy -> "Rnotcapy" | RNotFound p -> "Rnotfound:" ^ unpath p | ROutside p -> "Routside:" ^ unpath p)

let () =
  iter_lines (fun line ->
    let f = Array.of_list (split_on '\t' line) in
    let fs = List.filter (fun s -> s <> "") (split_on ',' f.(3)) in
    let fs = List.map (fun s -> (path (String.sub s 1 (String.length s - 1)), if s.[0] = 'F' then File else Dir)) fs in
    let fixed = Array.length f > 5 && String.trim f.(5) = "1" in
    let c = { c_mod_dir = path f.(1); c_cwd = path f.(0); c_fs = fs; c_fixed = fixed } in
    let prog = List.filter (fun s -> s <> "") (split_on ';' f.(4)) in
    let prog = List.map (fun s ->
        match split_on '=' s with
        | [p; ds] -> (path p, List.map directive (List.filter (fun x -> x <> "") (split_on ',' ds)))
        | _ -> failwith "program") prog in
    let buf = Buffer.create 256 in
    (match compile_all c prog (path f.(2)) with
     | Util.Ok l -> Buffer.add_string buf ("E:" ^ String.concat "," (List.map unpath l))
     | Util.Crash n -> Buffer.add_string buf (Printf.sprintf "E:CRASH%d" (int_of_n n))
     | Util.OutOfFuel -> Buffer.add_string buf "E:FUEL");
    List.iter (fun (p, ds) ->
        Buffer.add_string buf ("|" ^ unpath p ^ "=" ^
                               String.concat "," (List.map (fun d -> outcome (lower_import c p d)) ds))) prog;
    print_endline (Buffer.contents buf))
