(* stdin: "I <pw> T1 ; T2 ; ..." (type grammar: harness/c17/src/typarse.rs) ->
   one group per type, blank separated:
     "<id>:<discr>,<size>,<align>,<flag>,<index>:<msize>,<malign>,<mstride>:<isize>,<ialign>,<istride>:<rt>"
   id = what the model of to_type_id assigns (CRASH<site> on a modelled panic; then the
   group is just that); discr..index = meta.capy's bit-field readers applied to the id;
   msize.. = meta.size_of/align_of/stride_of of the model on the final tables ("X" = crash);
   isize.. = the layout specification (C17); rt = 1 if the type can exist at run time. *)
open Conv
open LTy

exception Bad of string

let parse_ty (toks : string list) : lty * string list =
  let rec ty = function
    | [] -> raise (Bad "end")
    | t :: r ->
      let num = function
        | x :: r -> (n_of_int (int_of_string x), r)
        | [] -> raise (Bad "num") in
      let rec many k r acc = if k = 0 then (List.rev acc, r) else
          let (x, r) = ty r in many (k - 1) r (x :: acc) in
      let rec members k r acc = if k = 0 then (List.rev acc, r) else
          let (n, r) = num r in let (x, r) = ty r in members (k - 1) r ((n, x) :: acc) in
      (match t with
       | "bool" -> (LBool, r) | "char" -> (LChar, r) | "str" -> (LString, r)
       | "type" -> (LType, r) | "any" -> (LAny, r)
       | "rawptr0" -> (LRawPtr false, r) | "rawptr1" -> (LRawPtr true, r)
       | "rawslice" -> (LRawSlice, r) | "void" -> (LVoid, r) | "nil" -> (LNil, r)
       | "never" -> (LAlwaysJumps, r) | "unknown" -> (LUnknown, r) | "nyr" -> (LNotYetResolved, r)
       | "aarr" -> let (n, r) = num r in let (s, r) = ty r in (LAnonArray (n, s), r)
       | "arr" -> let (n, r) = num r in let (s, r) = ty r in (LArray (n, s), r)
       | "slice" -> let (s, r) = ty r in (LSlice s, r)
       | "ptr0" -> let (s, r) = ty r in (LPointer (false, s), r)
       | "ptr1" -> let (s, r) = ty r in (LPointer (true, s), r)
       | "dist" -> let (u, r) = num r in let (s, r) = ty r in (LDistinct (u, s), r)
       | "polyfn" -> let (n, r) = num r in (LPolyFn n, r)
       | "fn" -> let (l, r) = num r in let (k, r) = num r in
         let (ps, r) = many (int_of_n k) r [] in let (ret, r) = ty r in (LFn (ps, ret, l), r)
       | "fnptr" -> let (k, r) = num r in
         let (ps, r) = many (int_of_n k) r [] in let (ret, r) = ty r in (LFnPtr (ps, ret), r)
       | "astruct" -> let (k, r) = num r in let (ms, r) = members (int_of_n k) r [] in (LAnonStruct ms, r)
       | "struct" -> let (u, r) = num r in let (k, r) = num r in
         let (ms, r) = members (int_of_n k) r [] in (LStruct (u, ms), r)
       | "enum" -> let (u, r) = num r in let (k, r) = num r in
         let (vs, r) = many (int_of_n k) r [] in (LEnum (u, vs), r)
       | "var" -> let (e, r) = num r in let (n, r) = num r in let (u, r) = num r in
         let (d, r) = num r in let (s, r) = ty r in (LVariant (e, n, u, d, s), r)
       | "opt" -> let (s, r) = ty r in (LOptional s, r)
       | "eu" -> let (e, r) = ty r in let (p, r) = ty r in (LErrorUnion (e, p), r)
       | _ ->
         let h = String.sub t 0 1 and rest = String.sub t 1 (String.length t - 1) in
         if h = "I" then (LIInt (n_of_int (int_of_string rest)), r)
         else if h = "U" then (LUInt (n_of_int (int_of_string rest)), r)
         else if h = "F" then (LFloat (n_of_int (int_of_string rest)), r)
         else if String.length t > 4 && String.sub t 0 4 = "file"
         then (LFile (n_of_int (int_of_string (String.sub t 4 (String.length t - 4)))), r)
         else raise (Bad t)) in
  ty toks


let show_n (n : BinNums.coq_N) : string =
  let h = hex_of_n n in
  if String.length h <= 14 then string_of_int (int_of_n n) else "0x" ^ h

let split_types (toks : string list) : string list list =
  let rec go cur acc = function
    | [] -> List.rev (if cur = [] then acc else List.rev cur :: acc)
    | ";" :: r -> go [] (if cur = [] then acc else List.rev cur :: acc) r
    | t :: r -> go (t :: cur) acc r in
  go [] [] toks

let () =
  iter_lines (fun line ->
    let toks = List.filter (fun s -> s <> "") (split_on ' ' (String.trim line)) in
    try
      match toks with
      | "I" :: pw :: rest ->
        let pw = n_of_int (int_of_string pw) in
        let tys = List.map (fun ts -> let (t, r) = parse_ty ts in if r <> [] then raise (Bad "trailing"); t)
            (split_types rest) in
        let (ids, st) = TypeId.tid_seq pw tys TypeId.meta0 in
        let groups = List.map2 (fun t r ->
            match r with
            | Util.Ok id ->
              let lay = match TypeId.meta_layout pw st id with
                | Util.Ok (s, a) ->
                  let stride = match TypeId.meta_stride_of pw st id with Util.Ok x -> show_n x | _ -> "X" in
                  Printf.sprintf "%s,%s,%s" (show_n s) (show_n a) stride
                | _ -> "X,X,X" in
              let rt = match TypeId.simple_type_id pw t with
                | Some _ -> if TypeId.runtime_simple t then "1" else "0"
                | None -> "1" in
              Printf.sprintf "%s:%s,%s,%s,%s,%s:%s:%s,%s,%s:%s" (show_n id)
                (show_n (TypeId.id_discr id)) (show_n (TypeId.id_size id)) (show_n (TypeId.id_align id))
                (show_n (TypeId.id_flag id)) (show_n (TypeId.id_index id)) lay
                (show_n (CLayout.isize pw t)) (show_n (CLayout.ialign pw t)) (show_n (CLayout.istride pw t)) rt
            | Util.Crash s -> Printf.sprintf "CRASH%d" (int_of_n s)
            | Util.OutOfFuel -> "FUEL") tys ids in
        print_endline (String.concat " " groups)
      | _ -> print_endline "BAD"
    with Bad m -> print_endline ("BAD:" ^ m) | Failure m -> print_endline ("BAD:" ^ m)
       | Invalid_argument m -> print_endline ("BAD:" ^ m))
