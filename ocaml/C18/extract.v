From Capy Require Import Common.Util Common.LTy Common.Layout Spec.CLayout Model.TypeId.
Require Extraction.
Require Import ExtrOcamlBasic.
Extraction Language OCaml.
Separate Extraction tid_seq meta0 id_discr id_size id_align id_flag id_index meta_layout meta_stride_of
  info_int_bits info_int_signed runtime_simple known_pair file_pair simple_type_id kind_of
  ideal isize ialign istride wfb lty_eqb N.to_nat N.of_nat.
