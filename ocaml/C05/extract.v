From Capy Require Import Common.Util Model.Scope Spec.ScopeSpec.
Require Extraction.
Require Import ExtrOcamlBasic.
Extraction Language OCaml.
Separate Extraction nat positive N Z lower_program spec_program wf_program guarded_program.
