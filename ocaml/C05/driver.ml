(* stdin: one program per line in prefix token form (see lib/verif/props/c05.py):
     program := n { name extern(0/1) ty:expr body:expr }*n
     expr    := V x | N k expr*k | B stmts | S arg(-1|x) scrut:expr k { l variant:expr body:expr }*k
              | L k { l x ct(0/1) ty:expr }*k ret:expr hasbody(0/1) stmts | C expr
     stmts   := { D l x ty:expr v:expr | E expr }* T expr
   stdout: "<wf_program false> <wf_program true> <guarded>|<model as is>|<model fixed>|<spec>"
   each result a list of resolution tokens or CRASH<site>. *)
open Conv
open Scope

let toks = ref [||]
let pos = ref 0
let next () = let t = !toks.(!pos) in incr pos; t
let num () = n_of_int (int_of_string (next ()))
let flag () = next () = "1"

let rec expr () =
  match next () with
  | "V" -> Var (num ())
  | "N" -> let k = int_of_string (next ()) in Node (exprs k)
  | "B" -> Block (stmts ())
  | "S" ->
    let a = next () in
    let arg = if a = "-1" then None else Some (n_of_int (int_of_string a)) in
    let scrut = expr () in
    let k = int_of_string (next ()) in
    Switch (arg, scrut, arms k)
  | "L" ->
    let k = int_of_string (next ()) in
    let ps = params k in
    let ret = expr () in
    let hb = flag () in
    let ss = stmts () in
    Lambda (ps, ret, hb, ss)
  | "C" -> Comptime (expr ())
  | t -> failwith ("bad token " ^ t)
and exprs k = if k = 0 then ENil else let e = expr () in ECons (e, exprs (k - 1))
and stmts () =
  match next () with
  | "T" -> STail (expr ())
  | "D" -> let l = num () in let x = num () in let ty = expr () in let v = expr () in
    let rest = stmts () in SDef (l, x, ty, v, rest)
  | "E" -> let e = expr () in let rest = stmts () in SExpr (e, rest)
  | t -> failwith ("bad stmt token " ^ t)
and arms k =
  if k = 0 then ANil
  else let l = num () in let v = expr () in let b = expr () in
    let rest = arms (k - 1) in ACons (l, v, b, rest)
and params k =
  if k = 0 then PNil
  else let l = num () in let x = num () in let ct = flag () in let ty = expr () in
    let rest = params (k - 1) in PCons (l, x, ct, ty, rest)

let res_str = function
  | RLocal l -> Printf.sprintf "L%d" (int_of_n l)
  | RSwitchArg l -> Printf.sprintf "S%d" (int_of_n l)
  | RParam l -> Printf.sprintf "P%d" (int_of_n l)
  | RCtParam l -> Printf.sprintf "C%d" (int_of_n l)
  | RInline l -> Printf.sprintf "I%d" (int_of_n l)
  | RInlineNotCt l -> Printf.sprintf "J%d" (int_of_n l)
  | RGlobal x -> Printf.sprintf "G%d" (int_of_n x)
  | RPrim -> "T" | RNil -> "Z" | RUndef -> "U"

let list_str l = String.concat " " (List.map res_str l)
let result_str = function
  | Util.Ok l -> list_str l
  | Util.Crash s -> Printf.sprintf "CRASH%d" (int_of_n s)
  | Util.OutOfFuel -> "FUEL"
let b2s b = if b then "1" else "0"

let () =
  iter_lines (fun line ->
    toks := Array.of_list (List.filter (fun s -> s <> "") (split_on ' ' (String.trim line)));
    pos := 0;
    let n = int_of_string (next ()) in
    let gs = List.init n (fun _ ->
      let name = num () in let ext = flag () in let ty = expr () in let body = expr () in
      { g_name = name; g_ty = ty; g_extern = ext; g_body = body }) in
    let w = { globals = List.map (fun g -> g.g_name) gs; prims = [n_of_int 4]; nil_name = n_of_int 5 } in
    print_endline (String.concat "|" [
      b2s (ScopeSpec.wf_program false gs) ^ " " ^ b2s (ScopeSpec.wf_program true gs) ^ " " ^ b2s (ScopeSpec.guarded_program gs);
      result_str (lower_program false w gs);
      result_str (lower_program true w gs);
      list_str (ScopeSpec.spec_program w gs) ]))
