From Capy Require Import Common.Util Model.LineIndex Spec.LineSpec.
Require Extraction.
Require Import ExtrOcamlBasic.
Extraction Language OCaml.
Separate Extraction position rendered_position line_spec col_spec line_starts.
