(* stdin: "<hex text>" -> results for offsets 0..len+1, or "<hex text> o1 o2 .." ->
   results for the listed offsets.  Per offset: "mL:mC/sL:sC" (model's rendered
   position / spec's 1-based position); a model crash prints "CRASH<site>". *)
open Conv
let () =
  iter_lines (fun line ->
    let parts = split_on ' ' (String.trim line) in
    let hex, offs = match parts with [] -> "", [] | h :: r -> h, r in
    let txt = bytes_of_hex hex in
    let len = List.length txt in
    let offs = if offs = [] then List.init (len + 2) (fun i -> i)
               else List.map int_of_string (List.filter (fun s -> s <> "") offs) in
    let buf = Buffer.create 64 in
    List.iter (fun off ->
      let o = nat_of_int off in
      (match LineIndex.rendered_position txt o with
       | Util.Ok (l, c) -> Buffer.add_string buf (Printf.sprintf "%d:%d" (int_of_nat l) (int_of_nat c))
       | Util.Crash s -> Buffer.add_string buf (Printf.sprintf "CRASH%d" (int_of_n s))
       | Util.OutOfFuel -> Buffer.add_string buf "FUEL");
      Buffer.add_string buf (Printf.sprintf "/%d:%d "
        (int_of_nat (LineSpec.line_spec txt o) + 1) (int_of_nat (LineSpec.col_spec txt o) + 1))) offs;
    print_endline (String.trim (Buffer.contents buf)))
