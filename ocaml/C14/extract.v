From Capy Require Import Common.Util Model.Mutability Spec.MutSpec.
Require Extraction.
Require Import ExtrOcamlBasic.
Extraction Language OCaml.
Separate Extraction nat positive N Z assign_accepted ref_mut_accepted get_mutability place suspect typed multilevel.
