(* stdin: one access path per line, prefix tokens, every node tagged with the pointer
   kinds of its type, outermost level first (n = not a pointer, i = `^`, m = `^mut`, mi = `^mut ^`, ...):
     L:k id mu 0 | L:k id mu 1 <path> | A:k i | G:k g | F:k <path> f | X:k <path> | D:k <path>
     | P:k <path> | U:k <path> | B:k <path> | R:k m <path> | C:k id | K:k id | T:k | O:k id
   stdout: "<assign_accepted> <ref_mut_accepted> <place> <suspect _ false> <typed> <mutability>
            <assign fix1> <ref_mut fix1> <assign fix2> <ref_mut fix2> <multilevel>"
   (no prefix = code before 1af504c, fix1 = 1af504c, fix2 = every auto-deref level checked) *)
open Conv
open Mutability

let toks = ref [||]
let pos = ref 0
let next () = let t = !toks.(!pos) in incr pos; t
let num () = n_of_int (int_of_string (next ()))
let table : (path * (bool option * bool list)) list ref = ref []
let conflict = ref false

let rec path () : path =
  let t = next () in
  let kind ch = (match ch with 'i' -> false | 'm' -> true | _ -> failwith "kind") in
  let ks = String.sub t 2 (String.length t - 2) in
  let c = t.[0] and k =
    (if ks = "n" then (None, [])
     else (Some (kind ks.[0]), List.init (String.length ks - 1) (fun i -> kind ks.[i + 1]))) in
  let p = match c with
    | 'L' -> let id = num () in let mu = next () = "1" in
      if next () = "1" then (let v = path () in PLocal (id, mu, Some v)) else PLocal (id, mu, None)
    | 'A' -> PParam (num ())
    | 'G' -> PGlobal (num ())
    | 'F' -> let p = path () in let f = num () in PField (p, f)
    | 'X' -> PIndex (path ())
    | 'D' -> PDeref (path ())
    | 'P' -> PParen (path ())
    | 'U' -> PUnwrap (path ())
    | 'B' -> PBlock (path ())
    | 'R' -> let m = next () = "1" in PRef (m, path ())
    | 'C' -> PCall (num ())
    | 'K' -> PCast (num ())
    | 'T' -> PLit
    | 'O' -> POther (num ())
    | _ -> failwith "ctor" in
  (match List.assoc_opt p !table with
   | Some k' when k' <> k -> conflict := true
   | Some _ -> ()
   | None -> table := (p, k) :: !table);
  p

let b2s b = if b then "1" else "0"
let mut_str = function
  | Mutable -> "Mutable" | ImmutableBinding -> "ImmutableBinding"
  | NotMutatingRefThroughDeref -> "NotMutatingRefThroughDeref" | ImmutableRef -> "ImmutableRef"
  | ImmutableParam _ -> "ImmutableParam" | ImmutableGlobal -> "ImmutableGlobal"
  | CannotMutateExpr -> "CannotMutateExpr"

let () =
  iter_lines (fun line ->
    toks := Array.of_list (List.filter (fun s -> s <> "") (split_on ' ' (String.trim line)));
    pos := 0; table := []; conflict := false;
    let p = path () in
    let tb = !table in
    let pk q = match List.assoc_opt q tb with Some (k, _) -> k | None -> None in
    let deep q = match List.assoc_opt q tb with Some (_, d) -> d | None -> [] in
    if !conflict then print_endline "ORACLE-CONFLICT" else
    print_endline (String.concat " " [
      b2s (assign_accepted false false pk deep p); b2s (ref_mut_accepted false false pk deep p);
      (match MutSpec.place pk deep p with MutSpec.Mut -> "Mut" | MutSpec.Immut -> "Immut" | MutSpec.Temp -> "Temp");
      b2s (MutSpec.suspect pk deep p false); b2s (MutSpec.typed pk p);
      mut_str (get_mutability true false pk deep p true false);
      b2s (assign_accepted true false pk deep p); b2s (ref_mut_accepted true false pk deep p);
      b2s (assign_accepted true true pk deep p); b2s (ref_mut_accepted true true pk deep p);
      b2s (MutSpec.multilevel pk deep p) ]))
