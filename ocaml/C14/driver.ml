(* stdin: one access path per line, prefix tokens, every node tagged with the pointer
   kind of its type (n = not a pointer, i = `^`, m = `^mut`):
     L:k id mu 0 | L:k id mu 1 <path> | A:k i | G:k g | F:k <path> f | X:k <path> | D:k <path>
     | P:k <path> | U:k <path> | B:k <path> | R:k m <path> | C:k id | K:k id | T:k | O:k id
   stdout: "<assign_accepted> <ref_mut_accepted> <place> <suspect _ false> <typed> <mutability>
            <assign_accepted fixed> <ref_mut_accepted fixed>"   (fixed = through_pointer repair) *)
open Conv
open Mutability

let toks = ref [||]
let pos = ref 0
let next () = let t = !toks.(!pos) in incr pos; t
let num () = n_of_int (int_of_string (next ()))
let table : (path * bool option) list ref = ref []
let conflict = ref false

let rec path () : path =
  let t = next () in
  let c = t.[0] and k = (match t.[2] with 'n' -> None | 'i' -> Some false | 'm' -> Some true | _ -> failwith "kind") in
  let p = match c with
    | 'L' -> let id = num () in let mu = next () = "1" in
      if next () = "1" then (let v = path () in PLocal (id, mu, Some v)) else PLocal (id, mu, None)
    | 'A' -> PParam (num ())
    | 'G' -> PGlobal (num ())
    | 'F' -> let p = path () in let f = num () in PField (p, f)
    | 'X' -> PIndex (path ())
    | 'D' -> PDeref (path ())
    | 'P' -> PParen (path ())
    | 'U' -> PUnwrap (path ())
    | 'B' -> PBlock (path ())
    | 'R' -> let m = next () = "1" in PRef (m, path ())
    | 'C' -> PCall (num ())
    | 'K' -> PCast (num ())
    | 'T' -> PLit
    | 'O' -> POther (num ())
    | _ -> failwith "ctor" in
  (match List.assoc_opt p !table with
   | Some k' when k' <> k -> conflict := true
   | Some _ -> ()
   | None -> table := (p, k) :: !table);
  p

let b2s b = if b then "1" else "0"
let mut_str = function
  | Mutable -> "Mutable" | ImmutableBinding -> "ImmutableBinding"
  | NotMutatingRefThroughDeref -> "NotMutatingRefThroughDeref" | ImmutableRef -> "ImmutableRef"
  | ImmutableParam _ -> "ImmutableParam" | ImmutableGlobal -> "ImmutableGlobal"
  | CannotMutateExpr -> "CannotMutateExpr"

let () =
  iter_lines (fun line ->
    toks := Array.of_list (List.filter (fun s -> s <> "") (split_on ' ' (String.trim line)));
    pos := 0; table := []; conflict := false;
    let p = path () in
    let tb = !table in
    let pk q = match List.assoc_opt q tb with Some k -> k | None -> None in
    if !conflict then print_endline "ORACLE-CONFLICT" else
    print_endline (String.concat " " [
      b2s (assign_accepted false pk p); b2s (ref_mut_accepted false pk p);
      (match MutSpec.place pk p with MutSpec.Mut -> "Mut" | MutSpec.Immut -> "Immut" | MutSpec.Temp -> "Temp");
      b2s (MutSpec.suspect pk p false); b2s (MutSpec.typed pk p);
      mut_str (get_mutability false pk p true false);
      b2s (assign_accepted true pk p); b2s (ref_mut_accepted true pk p) ]))
