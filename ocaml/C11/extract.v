From Capy Require Import Common.Util Model.Switch Spec.SwitchSpec.
Require Extraction.
Require Import ExtrOcamlBasic.
Extraction Language OCaml.
Separate Extraction assign_discriminants dup_manuals check_switch accepted compile_switch dispatch
  namesb accepted_specb arm_for spec_outcome expected_bind known_check_class known_codegen_class variants_of is_tagged.
