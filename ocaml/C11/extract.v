From Capy Require Import Common.Util Model.Switch Model.SwitchFixed Spec.SwitchSpec.
Require Extraction.
Require Import ExtrOcamlBasic.
Extraction Language OCaml.
Separate Extraction assign_discriminants dup_manuals check_switch accepted compile_switch dispatch
  namesb accepted_specb arm_for spec_outcome expected_bind known_check_class known_codegen_class variants_of is_tagged
  assign_discriminants_fx check_switch_fx compile_switch_fx dispatch_fx known_check_class_fx known_codegen_class_fx.
