(* C11 model driver.  One case per stdin line, tokens separated by blanks.
   After the command letter an optional token fx=<b1><b2><b3><b4><b5> (0/1 each) says which of the repairs K1..K5
   are present in the tree (Model/SwitchFixed.v); default 00000 = the faithful model of Model/Switch.v.


   D <m>*                         discriminant assignment; <m> = '-' | number
     -> "OK d1 d2 .. ; dups i j .." | "CRASH<n>" | "FUEL"

   S <wraps> <shape> <arms> <dflt> <witharg>
     <wraps>  = <k> (d<uid> | v<uid>)*k
     <shape>  = E <uid> <n> (<name> <uid> <sub> <nil01> <r> <m>)*n      enum; discriminants by assign_discriminants
              | O <vty> | R <vty> <vty> | X
     <vty>    = n | dn<uid> | o<id><r> | v<euid>.<name>.<uid>.<sub>.<nil01>.<r>.<discr>
     <r>      = z | s | p | a
     <arms>   = <k> (S:<name> | F:<vty> | V:<idx> | T)*k      V:<idx> = fully-qualified idx-th variant of the enum
     -> "check=<r> spec=<0|1> kcheck=<c> comp=<OK|CRASHn|-> kgen=<c> n=<#variants> disp=<o>,<o>.. sdisp=<o>,<o>.. discr=<d,..>"
        <r> = OK:<diag>,.. | CRASH<n> ; <diag> = Ss | Ti | Ni | Hi | Zi | Ai | Mj
        <o> = a<i>:<bind> | d | t | CRASH<n>
*)
open Conv
open Switch
open SwitchSpec
open SwitchFixed

let n = n_of_int
let repr_of_char = function
  | 'z' -> RZero | 's' -> RScalar | 'p' -> RPtr | 'a' -> RAggr | _ -> failwith "repr"

let parse_vty (s : string) : vty =
  if s = "n" then TA ANil
  else if String.length s > 2 && String.sub s 0 2 = "dn" then
    TA (ADistinctNil (n (int_of_string (String.sub s 2 (String.length s - 2)))))
  else if s.[0] = 'o' then
    let l = String.length s in
    TA (AOther (n (int_of_string (String.sub s 1 (l - 2))), repr_of_char s.[l - 1]))
  else if s.[0] = 'v' then
    match split_on '.' (String.sub s 1 (String.length s - 1)) with
    | [e; nm; u; sub; nl; r; d] ->
      TV { v_euid = n (int_of_string e); v_name = n (int_of_string nm); v_uid = n (int_of_string u);
           v_sub = n (int_of_string sub); v_sub_nil = (nl = "1"); v_repr = repr_of_char r.[0];
           v_discr = n (int_of_string d) }
    | _ -> failwith "variant token"
  else failwith ("vty token " ^ s)

let show_diag = function
  | DScrutNotSum -> "Ss"
  | DArmNotType i -> Printf.sprintf "T%d" (int_of_nat i)
  | DNotVariant i -> Printf.sprintf "N%d" (int_of_nat i)
  | DShortOnNonEnum i -> Printf.sprintf "H%d" (int_of_nat i)
  | DNotShorthand i -> Printf.sprintf "Z%d" (int_of_nat i)
  | DAlready i -> Printf.sprintf "A%d" (int_of_nat i)
  | DMissing j -> Printf.sprintf "M%d" (int_of_nat j)

let show_bind = function
  | None -> "?"
  | Some BNoArg -> "noarg" | Some BNone -> "none" | Some BLoad -> "load"
  | Some BAddr -> "addr" | Some BPointer -> "ptr"

let show_outcome = function
  | OArm (i, b) -> Printf.sprintf "a%d:%s" (int_of_nat i) (show_bind b)
  | ODefault -> "d"
  | OTrap -> "t"

let show_res f = function
  | Util.Ok x -> f x
  | Util.Crash s -> Printf.sprintf "CRASH%d" (int_of_n s)
  | Util.OutOfFuel -> "FUEL"

let show_class = function
  | None -> "-"
  | Some KWrappedScrutinee -> "K1"
  | Some KNilLikeArm -> "K3"
  | Some KNullableDefault -> "K4"
  | Some KPointerPayloadArg -> "K5"

let parse_m s = if s = "-" then None else Some (n (int_of_string s))

let parse_fx (s : string) : fixes =
  let b i = String.length s > i && s.[i] = '1' in
  { fx1 = b 0; fx2 = b 1; fx3 = b 2; fx4 = b 3; fx5 = b 4 }

(* splits an optional leading fx=.. token off *)
let take_fx toks =
  match toks with
  | t :: r when String.length t >= 3 && String.sub t 0 3 = "fx=" ->
    (parse_fx (String.sub t 3 (String.length t - 3)), r)
  | _ -> (parse_fx "", toks)

let cmd_d toks =
  let (fx, toks) = take_fx toks in
  let ms = List.map parse_m toks in
  show_res (fun (ds, big) ->
      "OK " ^ String.concat " " (List.map (fun d -> string_of_int (int_of_n d)) ds)
      ^ " ; dups " ^ String.concat " " (List.map (fun i -> string_of_int (int_of_nat i)) (dup_manuals [] O ms))
      ^ " ; big " ^ String.concat " " (List.map (fun i -> string_of_int (int_of_nat i)) big))
    (assign_discriminants_fx fx ms)

let cmd_s toks =
  let (fx, toks) = take_fx toks in
  let rest = ref toks in
  let adv () = match !rest with [] -> failwith "eof" | t :: r -> rest := r; t in
  let k = int_of_string (adv ()) in
  let wraps = List.init k (fun _ ->
      let t = adv () in
      let u = n (int_of_string (String.sub t 1 (String.length t - 1))) in
      if t.[0] = 'd' then WDistinct u else WVariant u) in
  let discr_out = ref "-" in
  let big_out = ref 0 in
  let shape =
    match adv () with
    | "E" ->
      let uid = n (int_of_string (adv ())) in
      let cnt = int_of_string (adv ()) in
      let raw = List.init cnt (fun _ ->
          let nm = adv () in let u = adv () in let sub = adv () in let nl = adv () in
          let r = adv () in let m = adv () in (nm, u, sub, nl, r, m)) in
      let ms = List.map (fun (_, _, _, _, _, m) -> parse_m m) raw in
      (match assign_discriminants_fx fx ms with
       | Util.Ok (ds, big) ->
         big_out := List.length big;
         discr_out := String.concat "," (List.map (fun d -> string_of_int (int_of_n d)) ds);
         SEnum (uid, List.map2 (fun (nm, u, sub, nl, r, _) d ->
             { v_euid = uid; v_name = n (int_of_string nm); v_uid = n (int_of_string u);
               v_sub = n (int_of_string sub); v_sub_nil = (nl = "1"); v_repr = repr_of_char r.[0];
               v_discr = d }) raw ds)
       | _ -> failwith "assign_discriminants crashed")
    | "O" -> SOpt (parse_vty (adv ()))
    | "R" -> let e = parse_vty (adv ()) in let p = parse_vty (adv ()) in SErr (e, p)
    | "X" -> SNotSum
    | t -> failwith ("shape token " ^ t) in
  let k = int_of_string (adv ()) in
  let arms = List.init k (fun _ ->
      let t = adv () in
      if t = "T" then ANotType
      else
        let body = String.sub t 2 (String.length t - 2) in
        match t.[0] with
        | 'S' -> AShort (n (int_of_string body))
        | 'F' -> AFull (parse_vty body)
        | 'V' -> (match shape with
            | SEnum (_, vs) -> AFull (TV (List.nth vs (int_of_string body)))
            | _ -> failwith "V arm on non-enum")
        | _ -> failwith ("arm token " ^ t)) in
  let dflt = adv () = "1" in
  let with_arg = adv () = "1" in
  let s = { s_wraps = wraps; s_shape = shape } in
  let nv = List.length (variants_of shape) in
  let check = show_res (fun ds -> "OK:" ^ String.concat "," (List.map show_diag ds)) (check_switch_fx fx s arms dflt) in
  let spec = if accepted_specb shape arms dflt then "1" else "0" in
  let comp = show_res (fun _ -> "OK") (compile_switch_fx fx shape arms dflt with_arg) in
  let js = List.init nv (fun j -> nat_of_int j) in
  let disp = String.concat "," (List.map (fun j -> show_res show_outcome (dispatch_fx fx shape arms dflt with_arg j)) js) in
  let sdisp = String.concat "," (List.map (fun j -> show_outcome (spec_outcome shape arms with_arg j)) js) in
  Printf.sprintf "check=%s spec=%s kcheck=%s comp=%s kgen=%s n=%d disp=%s sdisp=%s discr=%s big=%d"
    check spec (show_class (known_check_class_fx fx s arms)) comp
    (show_class (known_codegen_class_fx fx shape arms dflt with_arg)) nv
    (if disp = "" then "-" else disp) (if sdisp = "" then "-" else sdisp) !discr_out !big_out

let () =
  iter_lines (fun line ->
    match List.filter (fun s -> s <> "") (split_on ' ' (String.trim line)) with
    | "D" :: toks -> (try print_endline (cmd_d toks) with e -> print_endline ("ERROR " ^ Printexc.to_string e))
    | "S" :: toks -> (try print_endline (cmd_s toks) with e -> print_endline ("ERROR " ^ Printexc.to_string e))
    | _ -> print_endline "ERROR unknown command")
