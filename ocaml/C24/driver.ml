(* C24 model driver (trusted glue: token text <-> kind, S-expression syntax).
   "T <sexpr>"        tree t -> "<print_min t> @ <print_redundant t> @ <pmin t> @ <pall t> @ <wf flags>"
   "P <mode> tok ..."  parse the token texts with the extracted parser model ->
                       "OK <sexpr> <rest-length>" | "ERR" | "UNSUP" | "FUEL"
                       (mode starting with S: a `;` follows the expression) *)
open Conv
open ExprGrammar
open Precedence

let binops = [ "||", OLOr; "&&", OLAnd; "<", OLt; "<=", OLe; ">", OGt; ">=", OGe; "==", OEq; "!=", ONe;
               "+", OAdd; "-", OSub; "|", OBOr; "~", OXor; "*", OMul; "/", ODiv; "%", OMod; "&", OBAnd;
               "<<", OShl; ">>", OShr ]
let binop_text o = fst (List.find (fun (_, o') -> o' = o) binops)
let unops = [ "-", UNeg; "+", UPos; "!", UNot; "~", UBNot ]
let unop_text o = fst (List.find (fun (_, o') -> o' = o) unops)

let is_digit c = c >= '0' && c <= '9'
let tok_of_text (s : string) : tok =
  match List.assoc_opt s binops with
  | Some o -> TOp o
  | None ->
    match s with
    | "!" -> TBang | "^" -> TCaret | "mut" -> TMut | "." -> TDot | "try" -> TTry | "as" -> TAs
    | "," -> TComma | ":" -> TColon | "..." -> TEllipsis | "=" -> TEquals | ";" -> TSemi
    | "(" -> TLParen | ")" -> TRParen | "[" -> TLBrack | "]" -> TRBrack | "{" -> TLBrace | "}" -> TRBrace
    | "->" -> TArrow | "extern" -> TExtern | "#" -> THash
    | "true" | "false" -> TBool
    | "distinct" | "comptime" | "struct" | "enum" | "?" | "if" | "while" | "loop" | "switch" | "`" | "\"" | "'" -> TStarter
    | "else" | "in" | "return" | "break" | "continue" | "defer" | "catch" | "=>" -> TJunk
    | _ ->
      if s = "" then TJunk
      else if is_digit s.[0] || (s.[0] = '.' && String.length s > 1) then
        (if String.contains s '.' then TFloat else TInt)
      else if (s.[0] >= 'a' && s.[0] <= 'z') || (s.[0] >= 'A' && s.[0] <= 'Z') || s.[0] = '_' then TIdent
      else TJunk

let text_of_tok (t : tok) : string =
  match t with
  | TInt -> "1" | TFloat -> "1.5" | TBool -> "true" | TIdent -> "a"
  | TOp o -> binop_text o
  | TBang -> "!" | TCaret -> "^" | TMut -> "mut" | TDot -> "." | TTry -> "try" | TAs -> "as"
  | TComma -> "," | TColon -> ":" | TEllipsis -> "..." | TEquals -> "=" | TSemi -> ";"
  | TLParen -> "(" | TRParen -> ")" | TLBrack -> "[" | TRBrack -> "]" | TLBrace -> "{" | TRBrace -> "}"
  | TArrow -> "->" | TExtern -> "extern" | THash -> "#" | TStarter -> "if" | TJunk -> "else"

let rec sexpr (e : expr) : string =
  match e with
  | EAtom AVar -> "v" | EAtom AInt -> "i" | EAtom AFloat -> "f" | EAtom ABool -> "b"
  | EParen x -> "(P " ^ sexpr x ^ ")"
  | EEmptyParen -> "(P _)"
  | EUnary (o, x) -> "(U" ^ unop_text o ^ " " ^ sexpr x ^ ")"
  | ERef (m, x) -> (if m then "(RM " else "(R ") ^ sexpr x ^ ")"
  | EBin (o, l, r) -> "(B" ^ binop_text o ^ " " ^ sexpr l ^ " " ^ sexpr r ^ ")"
  | ECall (f, args) -> "(C " ^ String.concat " " (List.map sexpr (f :: args)) ^ ")"
  | EIndex (a, i) -> "(I " ^ sexpr a ^ " " ^ sexpr i ^ ")"
  | EField x -> "(F " ^ sexpr x ^ ")"
  | ETry x -> "(T " ^ sexpr x ^ ")"
  | ECast (t, Some v) -> "(K " ^ sexpr t ^ " " ^ sexpr v ^ ")"
  | ECast (t, None) -> "(K " ^ sexpr t ^ ")"
  | EDeref x -> "(D " ^ sexpr x ^ ")"

(* S-expression reader *)
let lex_sexpr (s : string) : string list =
  let b = Buffer.create 16 and out = ref [] in
  let flush () = if Buffer.length b > 0 then (out := Buffer.contents b :: !out; Buffer.clear b) in
  String.iter (fun c ->
    if c = '(' || c = ')' then (flush (); out := String.make 1 c :: !out)
    else if c = ' ' then flush () else Buffer.add_char b c) s;
  flush (); List.rev !out

let rec read (ts : string list) : expr * string list =
  match ts with
  | "v" :: r -> EAtom AVar, r | "i" :: r -> EAtom AInt, r | "f" :: r -> EAtom AFloat, r | "b" :: r -> EAtom ABool, r
  | "(" :: hd :: r ->
    let rec many acc r = match r with
      | ")" :: r' -> List.rev acc, r'
      | "_" :: r' -> many acc r'
      | _ -> let e, r' = read r in many (e :: acc) r' in
    let kids, r' = many [] r in
    let e = match hd.[0], kids with
      | 'P', [x] -> EParen x
      | 'P', [] -> EEmptyParen
      | 'U', [x] -> EUnary (List.assoc (String.sub hd 1 (String.length hd - 1)) unops, x)
      | 'R', [x] -> ERef (hd = "RM", x)
      | 'B', [l; r] -> EBin (List.assoc (String.sub hd 1 (String.length hd - 1)) binops, l, r)
      | 'C', f :: args -> ECall (f, args)
      | 'I', [a; i] -> EIndex (a, i)
      | 'F', [x] -> EField x
      | 'T', [x] -> ETry x
      | 'K', [t; v] -> ECast (t, Some v)
      | 'K', [t] -> ECast (t, None)
      | 'D', [x] -> EDeref x
      | _ -> failwith ("bad sexpr head " ^ hd) in
    e, r'
  | _ -> failwith "bad sexpr"

let toks_text ts = String.concat " " (List.map text_of_tok ts)

let () =
  iter_lines (fun line ->
    let line = String.trim line in
    if String.length line < 2 then print_endline "BAD" else
    match line.[0] with
    | 'T' ->
      (try
        let t, _ = read (lex_sexpr (String.sub line 2 (String.length line - 2))) in
        let pm = pmin (CB O) t and pa = pall t in
        print_endline (String.concat " @ "
          [ toks_text (print pm); toks_text (print pa); sexpr pm; sexpr pa;
            Printf.sprintf "%b %b %b %d" (wf (CB O) pm) (wf (CB O) pa) (paren_free t) (int_of_nat (size t)) ])
      with Failure m -> print_endline ("BAD " ^ m))
    | 'W' ->
      (* wf of an arbitrary (parenthesised) tree, and its printing *)
      (try
        let t, _ = read (lex_sexpr (String.sub line 2 (String.length line - 2))) in
        print_endline (Printf.sprintf "%b @ %s" (wf (CB O) t) (toks_text (print t)))
      with Failure m -> print_endline ("BAD " ^ m))
    | _ ->
      let parts = List.filter (fun s -> s <> "") (split_on ' ' line) in
      (match parts with
       | _ :: mode :: toks ->
         let ts = List.map tok_of_text toks in
         let ts = if mode.[0] = 'S' then ts @ [TSemi] else ts in
         (match parse_bp (expr_fuel ts) O false ts with
          | POk (e, rest) -> print_endline (Printf.sprintf "OK %s %d" (sexpr e) (List.length rest))
          | PErr -> print_endline "ERR"
          | PUnsupported -> print_endline "UNSUP"
          | PFuel -> print_endline "FUEL")
       | _ -> print_endline "BAD"))
