From Capy Require Import Model.ExprGrammar Spec.Precedence.
From Coq Require Import NArith ZArith.
Require Extraction.
Require Import ExtrOcamlBasic.
Extraction Language OCaml.
Separate Extraction parse_expr parse_bp expr_fuel print pmin pall wf strip paren_free print_min print_redundant size BinNat.N.succ BinInt.Z.succ.
