From Capy Require Import Common.Util Common.Bits Model.NumOps Model.NumOpsF Spec.NumSpec Spec.NumSpecF.
Require Extraction.
Require Import ExtrOcamlBasic.
Extraction Language OCaml.
Separate Extraction m_binary_v m_unary m_cast_v m_remat spec_binary_any known_binary_class spec_unop spec_cast_any known_class_any ty_max.
