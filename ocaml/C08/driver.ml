(* C08 line server.  Input lines:
     B <lty> <rty> <op> <a> <b>     binary operator (operands: hex bit patterns)
     U <ty> <op> <a>                unary operator
     C <from> <to> <a>              cast
   Output: "<model> <model-after-comptime-rematerialisation> <spec> <class>" with values
   "<width>:<hex>", TRAP, CRASH<site>, "-" (unspecified / no class). *)
open Conv
open Convz
open NumOps

let ty_of = function
  | "i8" -> TIInt (n_of_int 8) | "i16" -> TIInt (n_of_int 16) | "i32" -> TIInt (n_of_int 32)
  | "i64" -> TIInt (n_of_int 64) | "i128" -> TIInt (n_of_int 128) | "isize" -> TIInt (n_of_int 255)
  | "u8" -> TUInt (n_of_int 8) | "u16" -> TUInt (n_of_int 16) | "u32" -> TUInt (n_of_int 32)
  | "u64" -> TUInt (n_of_int 64) | "u128" -> TUInt (n_of_int 128) | "usize" -> TUInt (n_of_int 255)
  | "f32" -> TFloat (n_of_int 32) | "f64" -> TFloat (n_of_int 64)
  | "bool" -> TBool | "char" -> TChar
  | "wint" -> TIInt (n_of_int 0) | "wuint" -> TUInt (n_of_int 0) | "wfloat" -> TFloat (n_of_int 0)
  | s -> failwith ("type " ^ s)

let binop_of = function
  | "+" -> OpAdd | "-" -> OpSub | "*" -> OpMul | "/" -> OpDiv | "%" -> OpMod
  | "<" -> OpLt | ">" -> OpGt | "<=" -> OpLe | ">=" -> OpGe | "==" -> OpEq | "!=" -> OpNe
  | "&" -> OpBAnd | "|" -> OpBOr | "~" -> OpXor | "<<" -> OpLShift | ">>" -> OpRShift
  | "&&" -> OpLAnd | "||" -> OpLOr
  | s -> failwith ("binop " ^ s)

let unop_of = function
  | "+" -> UPos | "-" -> UNeg | "~" -> UBNot | "!" -> ULNot | s -> failwith ("unop " ^ s)

let show_val (t, z) = Printf.sprintf "%d:%s" (int_of_z (clbits t)) (hex_of_z z)
let show_pair (w, z) = Printf.sprintf "%d:%s" (int_of_z w) (hex_of_z z)
let show_spec = function Some p -> show_pair p | None -> "-"
let show_class = function Some n -> string_of_int (int_of_n n) | None -> "-"
let crash = function Util.Crash s -> Printf.sprintf "CRASH%d" (int_of_n s) | _ -> "FUEL"

(* argv[1] = "fixed": mirror the repaired cast_num (finding C08-1 fixed) *)
let fx = Array.length Sys.argv > 1 && Sys.argv.(1) = "fixed"

let () =
  iter_lines (fun line ->
    let out =
      try
        match List.filter (fun s -> s <> "") (split_on ' ' (String.trim line)) with
        | ["B"; l; r; op; a; b] ->
          let l = ty_of l and r = ty_of r and op = binop_of op and a = z_of_hex a and b = z_of_hex b in
          let m, cm = match NumOpsF.m_binary_v fx l r op a b with
            | Util.Ok (Val v) -> show_val v, show_val (NumOpsF.m_remat v)
            | Util.Ok Trap -> "TRAP", "TRAP"
            | Util.Ok Fault -> "FAULT", "FAULT"
            | e -> crash e, crash e in
          Printf.sprintf "%s %s %s %s" m cm (show_spec (NumSpecF.spec_binary_any l r op a b))
            (show_class (NumSpecF.known_binary_class l r op))
        | ["U"; t; op; a] ->
          let t = ty_of t and op = unop_of op and a = z_of_hex a in
          let m, cm = match NumOpsF.m_unary t op a with
            | Util.Ok v -> show_val v, show_val (NumOpsF.m_remat v)
            | e -> crash e, crash e in
          Printf.sprintf "%s %s %s -" m cm (show_spec (NumSpec.spec_unop t op a))
        | ["C"; f; t; a] ->
          let f = ty_of f and t = ty_of t and a = z_of_hex a in
          let m, cm = match NumOpsF.m_cast_v fx f t a with
            | Util.Ok v -> show_val v, show_val (NumOpsF.m_remat v)
            | e -> crash e, crash e in
          Printf.sprintf "%s %s %s %s" m cm (show_spec (NumSpecF.spec_cast_any f t a))
            (show_class (NumSpecF.known_class_any f t))
        | _ -> "BADLINE"
      with Failure m -> "ERR:" ^ m in
    print_endline out)
