From Capy Require Import Common.Util Model.Gate Spec.GateSpec.
Require Extraction.
Require Import ExtrOcamlBasic.
Extraction Language OCaml.
Separate Extraction gate gate_verdict gate_ok is_safe loc_unsafe track marked.
