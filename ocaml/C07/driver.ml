(* stdin, one case per line:
     "obs <errors> <expr_errors> <unsafe 0|1> <cg skipped|produced|failed> <object 0|1>"
        -> "<verdict>"   (GateSpec.gate_verdict: 0 = property holds, 1..5 = first failing clause)
     "gate <errors 0|1> <track 0|1> <found_unsafe 0|1> <mains> <cg ok|error|panic>"
        -> "notcompiled | nosinglemain | object | codegenfailed | crash<site>"   (Gate.gate) *)
open Conv
let b s = s = "1"
let () =
  iter_lines (fun line ->
    match split_on ' ' (String.trim line) with
    | ["obs"; e; x; u; cg; o] ->
      let cg = match cg with "skipped" -> GateSpec.CgSkipped | "produced" -> GateSpec.CgProduced | _ -> GateSpec.CgFailed in
      let ob = { GateSpec.o_errors = n_of_int (int_of_string e); o_expr_errors = n_of_int (int_of_string x);
                 o_unsafe = b u; o_cg = cg; o_object = b o } in
      print_endline (string_of_int (int_of_n (GateSpec.gate_verdict ob)))
    | ["gate"; e; t; f; m; cg] ->
      let cg = match cg with "ok" -> Gate.CgOk | "error" -> Gate.CgError | _ -> Gate.CgPanic in
      let i = { Gate.g_errors = b e; g_track = b t; g_found_unsafe = b f; g_mains = n_of_int (int_of_string m); g_cg = cg } in
      print_endline (match Gate.gate i with
        | Util.Ok Gate.NotCompiled -> "notcompiled"
        | Util.Ok Gate.NoSingleMain -> "nosinglemain"
        | Util.Ok Gate.Object -> "object"
        | Util.Ok Gate.CodegenFailed -> "codegenfailed"
        | Util.Crash s -> Printf.sprintf "crash%d" (int_of_n s)
        | Util.OutOfFuel -> "fuel")
    | _ -> print_endline "?")
