(* stdin, one case per line:
     "obs <errors> <expr_errors> <unsafe 0|1> <cg skipped|produced|failed> <object 0|1>"
        -> "<verdict>"   (GateSpec.gate_verdict: 0 = property holds, 1..5 = first failing clause)
     "gate <errors 0|1> <track 0|1> <found_unsafe 0|1> <mains> <cg ok|error|panic>"
        -> "notcompiled | nosinglemain | object | codegenfailed | crash<site>"   (Gate.gate) *)
open Conv
module Str_split = struct
  let split (sep : string) (s : string) : string list =
    let n = String.length sep and l = String.length s in
    let rec go start i acc =
      if i + n > l then List.rev (String.sub s start (l - start) :: acc)
      else if String.sub s i n = sep then go (i + n) (i + n) (String.sub s start (i - start) :: acc)
      else go start (i + 1) acc in
    go 0 0 []
end
let b s = s = "1"

(* "hir <world>"  (protocol: harness/c07/src/hirdump.rs) -> for every R / K entry in order
   "<loc>=safe|unsafe|skip|crash<site>|fuel" : Gate.loc_unsafe of the extracted model on the
   abstracted world *)
let hir_case (line : string) : string =
  let body = String.sub line 4 (String.length line - 4) in
  let sections = List.map String.trim (Str_split.split " ; " body) in
  let errs = Hashtbl.create 16 in
  let lists : (int, Gate.node) Hashtbl.t = Hashtbl.create 64 in
  let locs = Hashtbl.create 64 in
  let words s = List.filter (fun x -> x <> "") (split_on ' ' s) in
  let total = ref 0 in
  let parse_node (w : string) : Gate.node =
    match split_on ',' w with
    | [id; k; t] ->
      let id = n_of_int (int_of_string id) in
      let locpoly s = (* "<loc>.<poly>" *)
        match split_on '.' s with
        | [l; p] -> (n_of_int (int_of_string l), p = "1")
        | _ -> failwith "locpoly" in
      let rest = String.sub k 1 (String.length k - 1) in
      let kind = match k.[0] with
        | 's' -> Gate.KStmt (rest = "1")
        | 'm' -> Gate.KMissing
        | 'p' -> Gate.KPlain
        | 'g' -> let (l, p) = locpoly rest in Gate.KLocalGlobal (l, p)
        | 'f' -> let (l, p) = locpoly rest in Gate.KMemberFile (l, p)
        | 'c' -> Gate.KCall (rest = "1")
        | 'l' -> Gate.KLambda
        | _ -> failwith "kind" in
      let ty = match t.[0] with
        | 'o' -> Gate.TMetaOk | 'U' -> Gate.TMetaUnknown | 'n' -> Gate.TNone | 'u' -> Gate.TUnknown
        | 'P' -> Gate.TPolyFn | 't' -> Gate.TOther
        | 'F' -> Gate.TConcreteFn (n_of_int (int_of_string (String.sub t 1 (String.length t - 1))))
        | _ -> failwith "ty" in
      incr total;
      Gate.Node (id, kind, ty, [])
    | _ -> failwith "node" in
  List.iter (fun sec ->
    match words sec with
    | "E" :: ids -> List.iter (fun i -> Hashtbl.replace errs (int_of_string i) ()) ids
    | "N" :: li :: ":" :: nodes ->
      (match List.map parse_node nodes with
       | Gate.Node (i, k, t, _) :: rest -> Hashtbl.replace lists (int_of_string li) (Gate.Node (i, k, t, rest))
       | [] -> ())
    | ["L"; id; flags; body; lam; ret] -> Hashtbl.replace locs (int_of_string id) (flags, body, lam, ret)
    | _ -> ()) sections;
  let flag l i = match Hashtbl.find_opt locs (int_of_n l) with
    | Some (f, _, _, _) -> f.[i] = '1' | None -> false in
  let w = { Gate.lam_of = (fun l -> match Hashtbl.find_opt locs (int_of_n l) with
              | Some (_, _, lam, ret) when lam <> "-" ->
                let body = match lam.[0] with
                  | 'B' -> (match Hashtbl.find_opt lists (int_of_string (String.sub lam 1 (String.length lam - 1))) with
                            | Some n -> Gate.LBlock n | None -> Gate.LExtern)
                  | 'E' -> Gate.LEmpty
                  | _ -> Gate.LExtern in
                Some { Gate.l_body = body; l_has_ret = (ret = "1") }
              | _ -> None);
            glob_body = (fun l -> match Hashtbl.find_opt locs (int_of_n l) with
              | Some (_, body, _, _) when body <> "-" -> Hashtbl.find_opt lists (int_of_string body)
              | _ -> None);
            is_extern = (fun l -> flag l 0);
            finished = (fun l -> flag l 1);
            naive_found = (fun l -> flag l 2);
            defined = (fun l -> flag l 3);
            err = (fun i -> Hashtbl.mem errs (int_of_n i)) } in
  let fuel = nat_of_int (4 * !total + 1000) in
  let buf = Buffer.create 256 in
  List.iter (fun sec ->
    match words sec with
    | ["K"; l] -> Buffer.add_string buf (Printf.sprintf "%s=skip " l)
    | "R" :: l :: ":" :: roots ->
      let rs = List.filter_map (fun r -> Hashtbl.find_opt lists (int_of_string r)) roots in
      let v = match Gate.loc_unsafe fuel w (n_of_int (int_of_string l)) rs with
        | Util.Ok true -> "unsafe" | Util.Ok false -> "safe"
        | Util.Crash s -> Printf.sprintf "crash%d" (int_of_n s) | Util.OutOfFuel -> "fuel" in
      Buffer.add_string buf (Printf.sprintf "%s=%s " l v)
    | _ -> ()) sections;
  String.trim (Buffer.contents buf)
let () =
  iter_lines (fun line ->
    match split_on ' ' (String.trim line) with
    | ["obs"; e; x; u; cg; o] ->
      let cg = match cg with "skipped" -> GateSpec.CgSkipped | "produced" -> GateSpec.CgProduced | _ -> GateSpec.CgFailed in
      let ob = { GateSpec.o_errors = n_of_int (int_of_string e); o_expr_errors = n_of_int (int_of_string x);
                 o_unsafe = b u; o_cg = cg; o_object = b o } in
      print_endline (string_of_int (int_of_n (GateSpec.gate_verdict ob)))
    | ["gate"; e; t; f; m; cg] ->
      let cg = match cg with "ok" -> Gate.CgOk | "error" -> Gate.CgError | _ -> Gate.CgPanic in
      let i = { Gate.g_errors = b e; g_track = b t; g_found_unsafe = b f; g_mains = n_of_int (int_of_string m); g_cg = cg } in
      print_endline (match Gate.gate i with
        | Util.Ok Gate.NotCompiled -> "notcompiled"
        | Util.Ok Gate.NoSingleMain -> "nosinglemain"
        | Util.Ok Gate.Object -> "object"
        | Util.Ok Gate.CodegenFailed -> "codegenfailed"
        | Util.Crash s -> Printf.sprintf "crash%d" (int_of_n s)
        | Util.OutOfFuel -> "fuel")
    | "hir" :: _ -> print_endline (hir_case line)
    | _ -> print_endline "?")
