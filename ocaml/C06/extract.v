From Capy Require Import Common.Util Model.LineIndex Model.Diag.
Require Extraction.
Require Import ExtrOcamlBasic.
Extraction Language OCaml.
Separate Extraction display.
