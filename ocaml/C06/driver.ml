(* stdin: "<hex text> <start> <end> <missing 0|1>"  ->  the structure of the rendered snippet as
   computed by the extracted model Diag.display, in the format of harness/c06 (mode diag):
   "W<w>|L<num>:<e|n>:<R|E><hex>..|O|A<col>"  or  "CRASH<site>" *)
open Conv
let () =
  iter_lines (fun line ->
    match List.filter (fun s -> s <> "") (split_on ' ' (String.trim line)) with
    | [hex; s; e; m] ->
      let txt = bytes_of_hex hex in
      (match Diag.display txt (nat_of_int (int_of_string s)) (nat_of_int (int_of_string e)) (m = "1") with
       | Util.Ok (w, rows) ->
         let buf = Buffer.create 256 in
         Buffer.add_string buf (Printf.sprintf "W%d" (int_of_nat w));
         List.iter (fun r ->
           Buffer.add_char buf '|';
           match r with
           | Diag.ROmit -> Buffer.add_char buf 'O'
           | Diag.RArrow c -> Buffer.add_string buf (Printf.sprintf "A%d" (int_of_nat c))
           | Diag.RLine (n, el, segs) ->
             Buffer.add_string buf (Printf.sprintf "L%d:%c:" (int_of_nat n) (if el then 'e' else 'n'));
             List.iter (fun (hl, bytes) ->
               Buffer.add_char buf (if hl then 'E' else 'R');
               Buffer.add_string buf (hex_of_bytes bytes)) segs) rows;
         print_endline (Buffer.contents buf)
       | Util.Crash s -> print_endline (Printf.sprintf "CRASH%d" (int_of_n s))
       | Util.OutOfFuel -> print_endline "FUEL")
    | _ -> print_endline "BADCASE")
