//! C27 harness: real symbol mangling (codegen::verif_mangle hook) on descriptors
//! given as plain strings / indices.
//! argv[1] = directory to chdir into (get_components reads env::current_dir()).
//! One case per line, tab separated, strings hex encoded:
//!   D <mod_dir> <file> G <name> - <generic|-> <tail>
//!   D <mod_dir> <file> L <lambda idx> <owner: - | ownerfile:ownername> <generic|-> <tail>
//!     tail: - | Z:<idx> | I:<idx>:<name>
//!   N <name>            -> mangle_internal(name)
//!   B <mod_dir>         -> builtin function names, '|' separated
//! Result: hex of the mangled name (every applicable `impl Mangle` is called and
//! they must agree, else MISMATCH:<hex>|<hex>..), or PANIC:<msg>.
use std::cell::Cell;
use std::path::PathBuf;

use codegen::verif_mangle as vm;
use hir::common::{
    ComptimeArgs, ComptimeLoc, ConcreteLoc, FileName, NaiveGlobalLoc, NaiveLambdaLoc, NaiveLoc, Name,
};
use interner::Interner;
use la_arena::{Idx, IdxRange, RawIdx};

fn hs(s: &str) -> String {
    String::from_utf8(hcommon::hex_decode(s)).expect("utf8")
}
fn idx<T>(n: u32) -> Idx<T> {
    Idx::from_raw(RawIdx::from(n))
}

fn main() {
    let dir = std::env::args().nth(1).expect("cwd argument");
    std::env::set_current_dir(&dir).expect("chdir");
    let expr_ctr = Cell::new(0u32);
    hcommon::serve(|line| {
        let line = line.trim_end_matches(['\n', '\r']).to_string();
        let r = std::panic::catch_unwind(std::panic::AssertUnwindSafe(|| one(&line, &expr_ctr)));
        match r {
            Ok(s) => s,
            Err(e) => {
                let m = if let Some(s) = e.downcast_ref::<&str>() {
                    s.to_string()
                } else if let Some(s) = e.downcast_ref::<String>() {
                    s.clone()
                } else {
                    "?".to_string()
                };
                format!("PANIC:{}", m.replace(['\n', '\t'], " "))
            }
        }
    });
}

fn one(line: &str, expr_ctr: &Cell<u32>) -> String {
    let f: Vec<&str> = line.split('\t').collect();
    let mut interner = Interner::default();
    match f[0] {
        "N" => hcommon::hex_encode(vm::internal(&hs(f[1])).as_bytes()),
        "B" => {
            let md = PathBuf::from(hs(f[1]));
            vm::builtins(&md, &interner)
                .iter()
                .map(|s| hcommon::hex_encode(s.as_bytes()))
                .collect::<Vec<_>>()
                .join("|")
        }
        "D" => {
            let md = PathBuf::from(hs(f[1]));
            let file = FileName(interner.intern(&hs(f[2])));
            let generic: Option<ComptimeArgs> = if f[6] == "-" {
                None
            } else {
                let n: u32 = f[6].parse().unwrap();
                Some(ComptimeArgs::new(IdxRange::new(idx(n)..idx(n + 1))))
            };
            let e = expr_ctr.get();
            expr_ctr.set(e + 1);
            let naive: NaiveLoc = match f[3] {
                "G" => NaiveLoc::Global(NaiveGlobalLoc { file, name: Name(interner.intern(&hs(f[4]))) }),
                "L" => {
                    let l = NaiveLambdaLoc { file, expr: idx(e), lambda: idx(f[4].parse().unwrap()) };
                    if f[5] != "-" {
                        let (of, on) = f[5].split_once(':').unwrap();
                        let g = NaiveGlobalLoc {
                            file: FileName(interner.intern(&hs(of))),
                            name: Name(interner.intern(&hs(on))),
                        };
                        hir::common::set_lambda_global(l, g);
                    }
                    NaiveLoc::Lambda(l)
                }
                _ => panic!("bad base"),
            };
            let conc: ConcreteLoc = naive.make_concrete(generic);
            let mut outs: Vec<String> = Vec::new();
            let tail: Vec<&str> = f[7].split(':').collect();
            match tail[0] {
                "-" => {
                    outs.push(vm::concrete(conc, &md, &interner));
                    match conc {
                        ConcreteLoc::Global(g) => outs.push(vm::concrete_global(g, &md, &interner)),
                        ConcreteLoc::Lambda(l) => outs.push(vm::concrete_lambda(l, &md, &interner)),
                    }
                    if generic.is_none() {
                        outs.push(vm::naive(naive, &md, &interner));
                        match naive {
                            NaiveLoc::Global(g) => outs.push(vm::naive_global(g, &md, &interner)),
                            NaiveLoc::Lambda(l) => outs.push(vm::naive_lambda(l, &md, &interner)),
                        }
                    }
                }
                "Z" | "I" => {
                    let ct = ComptimeLoc { loc: conc, expr: idx(e), comptime: idx(tail[1].parse().unwrap()) };
                    if tail[0] == "Z" {
                        outs.push(vm::comptime(ct, &md, &interner));
                    } else {
                        outs.push(vm::comptime_data(ct, &hs(tail[2]), &md, &interner));
                    }
                }
                _ => panic!("bad tail"),
            }
            if outs.iter().all(|o| *o == outs[0]) {
                hcommon::hex_encode(outs[0].as_bytes())
            } else {
                format!(
                    "MISMATCH:{}",
                    outs.iter().map(|s| hcommon::hex_encode(s.as_bytes())).collect::<Vec<_>>().join("|")
                )
            }
        }
        _ => panic!("bad op"),
    }
}
