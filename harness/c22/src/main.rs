//! C22 harness: one hex-encoded UTF-8 text per line; result: "Kind@start ..."
//! followed by "END@<end of last token>" read through Tokens::kind/range
//! (Tokens::iter is not used, see DESIGN.md), or PANIC:<msg>.
fn main() {
    hcommon::serve(|line| {
        let bytes = hcommon::hex_decode(line.trim());
        let text = match String::from_utf8(bytes) {
            Ok(t) => t,
            Err(_) => return "NOTUTF8".to_string(),
        };
        let r = std::panic::catch_unwind(|| {
            let toks = lexer::lex(&text);
            let mut s = String::new();
            let n = toks.len();
            let mut end = 0u32;
            for i in 0..n {
                let r = toks.range(i);
                s.push_str(&format!("{:?}@{} ", toks.kind(i), u32::from(r.start())));
                end = r.end().into();
            }
            s.push_str(&format!("END@{}", end));
            s
        });
        match r {
            Ok(s) => s,
            Err(e) => format!(
                "PANIC:{}",
                e.downcast_ref::<String>().cloned().or_else(|| e.downcast_ref::<&str>().map(|s| s.to_string())).unwrap_or_default()
            ),
        }
    });
}
