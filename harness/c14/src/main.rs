//! C14 / C15 front-end harness: one hex-encoded source file ("main.capy") per line.
//! Runs hcommon::frontend (lex, parse, validate, index, lower, infer; comptime
//! evaluation through the JIT when the first argument is `comptime`) and returns
//! the diagnostics as `<stage>:<Kind>@<start>` tokens, or `PANIC:<msg>` when type
//! inference panicked.
fn main() {
    let eval = std::env::args().nth(1).map(|a| a == "comptime").unwrap_or(false);
    hcommon::serve(|line| {
        let bytes = hcommon::hex_decode(line.trim());
        let text = match String::from_utf8(bytes) {
            Ok(t) => t,
            Err(_) => return "NOTUTF8".to_string(),
        };
        // optional extra files: chunks introduced by a line `//// FILE <name>`; the text
        // before the first marker is main.capy (listed last, as the entry file)
        let mut files: Vec<(String, String)> = Vec::new();
        let mut cur_name = "main.capy".to_string();
        let mut cur = String::new();
        for l in text.split_inclusive('\n') {
            if let Some(n) = l.strip_prefix("//// FILE ") {
                files.push((cur_name, cur));
                cur_name = n.trim().to_string();
                cur = String::new();
            } else {
                cur.push_str(l);
            }
        }
        files.push((cur_name, cur));
        files.reverse();
        // a fresh thread per case: the compiler keeps per-thread global tables (type names,
        // lambda -> global map in hir::common::ty) that must not leak between programs
        let r = std::thread::Builder::new()
            .stack_size(64 << 20)
            .spawn(move || std::panic::catch_unwind(|| hcommon::frontend(&files, eval, false)))
            .unwrap()
            .join()
            .unwrap_or_else(|e| Err(e));
        match r {
            Err(_) => "PANIC:outside-inference".to_string(),
            Ok(fo) => {
                let mut s = String::new();
                if let Some(p) = &fo.infer_panic {
                    s.push_str(&format!("PANIC:{} ", p.replace(' ', "_").replace('\n', "_")));
                }
                for d in &fo.diags {
                    s.push_str(&format!(
                        "{}:{}{}@{} ",
                        d.stage,
                        if d.is_error { "" } else { "w-" },
                        d.kind,
                        d.start
                    ));
                }
                s.trim_end().to_string()
            }
        }
    });
}
