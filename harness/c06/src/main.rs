//! C06 harness.
//! mode `diag`: one case per line "<hex text> <start> <end> <missing 0|1>": builds a diagnostic with
//!   exactly that range (a validation warning, or a `Missing` syntax error when missing = 1 -- then
//!   end = start + 1 by construction of Diagnostic::range), renders it with the REAL
//!   `Diagnostic::display` (colours on, so that the highlighted slices are observable) and prints the
//!   structure of the snippet:
//!       W<max_digits>|L<num>:<e|n>:<R|E><hex>...|O|A<col>|...      or   PANIC@<file>:<line>
//!   L = source line row (num is 0-based; e = printed in the severity colour), segments R (reset
//!   colour) / E (severity colour); O = the "..." omission row; A = arrow row with its column.
use text_size::{TextRange, TextSize};

const RESET: &str = "\x1B[0m";
const GRAY: &str = "\x1B[90m";
const PADDING: &str = " │ ";

thread_local! {
    static LAST_PANIC_LOC: std::cell::RefCell<String> = std::cell::RefCell::new(String::new());
}

fn hex(b: &[u8]) -> String {
    b.iter().map(|x| format!("{:02x}", x)).collect()
}

fn parse_rows(lines: &[String], err: &str) -> String {
    let mut out = Vec::new();
    // lines[0] = message, [1] = "--> at", [2] = "", then rows, then ""
    let hdr = &lines[1];
    let w = hdr.strip_prefix(GRAY).unwrap_or(hdr).chars().take_while(|c| *c == ' ').count();
    out.push(format!("W{}", w));
    for l in &lines[3..lines.len().saturating_sub(1)] {
        let Some(pos) = l.find(PADDING) else {
            out.push("?".to_string());
            continue;
        };
        let left = &l[..pos];
        let right = &l[pos + PADDING.len()..];
        if left.contains("...") {
            out.push("O".to_string());
            continue;
        }
        let digits: String = left.chars().filter(|c| c.is_ascii_digit()).collect();
        // strip the colour codes' own digits: the codes are ESC[..m
        let mut clean = String::new();
        let mut it = left.chars().peekable();
        while let Some(c) = it.next() {
            if c == '\x1B' {
                for d in it.by_ref() {
                    if d == 'm' {
                        break;
                    }
                }
            } else {
                clean.push(c);
            }
        }
        let _ = digits;
        let num: String = clean.chars().filter(|c| c.is_ascii_digit()).collect();
        if num.is_empty() {
            // arrow row: spaces, err colour, '^'
            let col = right.chars().take_while(|c| *c == ' ').count();
            out.push(format!("A{}", col));
            continue;
        }
        let n: usize = num.parse().unwrap();
        let err_line = left.starts_with(err);
        let mut segs = String::new();
        let mut rest = right;
        // every colour code starts a new segment
        while !rest.is_empty() {
            let (mode, after) = if let Some(a) = rest.strip_prefix(RESET) {
                ('R', a)
            } else if let Some(a) = rest.strip_prefix(err) {
                ('E', a)
            } else {
                ('?', rest)
            };
            let next = after.find('\x1B').unwrap_or(after.len());
            segs.push(mode);
            segs.push_str(&hex(after[..next].as_bytes()));
            rest = &after[next..];
            if mode == '?' && next == 0 {
                break;
            }
        }
        out.push(format!("L{}:{}:{}", n - 1, if err_line { 'e' } else { 'n' }, segs));
    }
    out.join("|")
}

fn main() {
    let mode = std::env::args().nth(1).unwrap_or_default();
    hcommon::serve(|line| {
        std::panic::set_hook(Box::new(|info| {
            if let Some(l) = info.location() {
                let s = format!("{}:{}", l.file(), l.line());
                LAST_PANIC_LOC.with(|c| *c.borrow_mut() = s);
            }
        }));
        match mode.as_str() {
            "diag" => {
                let parts: Vec<&str> = line.split_whitespace().collect();
                if parts.len() != 4 {
                    return "BADCASE".to_string();
                }
                let text = match String::from_utf8(hcommon::hex_decode(parts[0])) {
                    Ok(t) => t,
                    Err(_) => return "NOTUTF8".to_string(),
                };
                let start: u32 = parts[1].parse().unwrap();
                let end: u32 = parts[2].parse().unwrap();
                let missing = parts[3] == "1";
                let (d, err) = if missing {
                    (
                        diagnostics::Diagnostic::from_syntax(parser::SyntaxError {
                            expected_syntax: parser::ExpectedSyntax::Named("thing"),
                            kind: parser::SyntaxErrorKind::Missing { offset: TextSize::from(start) },
                        }),
                        "\x1B[91m",
                    )
                } else {
                    (
                        diagnostics::Diagnostic::from_validation(ast::validation::ValidationDiagnostic {
                            kind: ast::validation::ValidationDiagnosticKind::AlwaysTrue,
                            range: TextRange::new(TextSize::from(start), TextSize::from(end)),
                        }),
                        "\x1B[93m",
                    )
                };
                let interner = interner::Interner::default();
                let li = line_index::LineIndex::new(&text);
                LAST_PANIC_LOC.with(|l| l.borrow_mut().clear());
                let r = std::panic::catch_unwind(std::panic::AssertUnwindSafe(|| {
                    d.display("main.capy", &text, std::path::Path::new(""), &interner, &li, true)
                }));
                match r {
                    Ok(lines) => parse_rows(&lines, err),
                    Err(_) => format!("PANIC@{}", LAST_PANIC_LOC.with(|l| l.borrow().clone())),
                }
            }
            _ => "BADMODE".to_string(),
        }
    });
}
