//! C11 harness.  One hex-encoded source text per stdin line; the text is run
//! through the real front end (lex, parse, validate, index, lower, infer; same
//! sequence as crates/capy/src/main.rs, see hcommon::frontend) and the result is
//!   "S<n> V<n> I<n>"                    counts of syntax / validation / indexing diagnostics
//!   "L:<Kind>@<start>"                  one per lowering diagnostic
//!   "T:<Kind>@<start>@<Debug of the kind, whitespace removed>"   one per type diagnostic, in order
//!   "PANIC@<file>:<line>@<message>"     if type inference panicked (location from the panic hook)
use std::path::Path;
use std::sync::Mutex;

use ast::AstNode;
use hir::common::{FileName, Fqn, Name};
use interner::Interner;
use la_arena::Arena;

static LAST_PANIC: Mutex<String> = Mutex::new(String::new());

fn kind_of<T: std::fmt::Debug>(t: &T) -> String {
    let s = format!("{:?}", t);
    s.split(|c: char| !(c.is_alphanumeric() || c == '_'))
        .next()
        .unwrap_or("")
        .to_string()
}

fn squeeze(s: String) -> String {
    s.chars().filter(|c| !c.is_whitespace()).collect()
}

fn front(text: &str) -> String {
    let mut out = String::new();
    let mut interner = Interner::default();
    let mut world_index = hir::WorldIndex::default();
    let mut uid_gen = uid_gen::UIDGenerator::default();
    let mut world_bodies = hir::WorldBodies::default();
    let mod_dir = Path::new("");

    let tokens = lexer::lex(text);
    let parse = parser::parse_source_file(&tokens, text);
    let nsyn = parse.errors().len();
    let tree = parse.into_syntax_tree();
    let root = ast::Root::cast(tree.root(), &tree).unwrap();
    let nval = ast::validation::validate(root, &tree).len();
    let (index, d) = hir::index(root, &tree, &mut interner);
    let nidx = d.len();
    out.push_str(&format!("S{} V{} I{}", nsyn, nval, nidx));
    let module = FileName(interner.intern("main.capy"));
    let (bodies, d) = hir::lower(
        root,
        &tree,
        Path::new("main.capy"),
        &index,
        &mut uid_gen,
        &mut interner,
        mod_dir,
        true,
    );
    for d in d {
        let start: u32 = d.range.start().into();
        out.push_str(&format!(" L:{}@{}", kind_of(&d.kind), start));
    }
    world_index.add_file(module, index);
    world_bodies.add_file(module, bodies);
    let name = Name(interner.intern("main"));
    let entry_point = if world_bodies[module].global_exists(name) {
        Some(Fqn { file: module, name })
    } else {
        None
    };
    let mut generic_values = Arena::new();
    LAST_PANIC.lock().unwrap().clear();
    let res = std::panic::catch_unwind(std::panic::AssertUnwindSafe(|| {
        hir_ty::InferenceCtx::new(
            &world_index,
            &world_bodies,
            &interner,
            &mut generic_values,
            |_comptime, _tys| panic!("VERIF-COMPTIME-DISABLED"),
        )
        .finish(entry_point, true)
    }));
    match res {
        Ok(r) => {
            for d in r.diagnostics {
                let start: u32 = d.range.start().into();
                out.push_str(&format!(
                    " T:{}@{}@{}",
                    kind_of(&d.kind),
                    start,
                    squeeze(format!("{:?}", d.kind))
                ));
            }
        }
        Err(_) => {
            out.push_str(&format!(" PANIC@{}", LAST_PANIC.lock().unwrap()));
        }
    }
    out
}

fn main() {
    let mut hook_set = false;
    hcommon::serve(|line| {
        if !hook_set {
            // hcommon::serve installs a silent hook first; replace it by one that
            // records where the panic happened (still silent)
            std::panic::set_hook(Box::new(|info| {
                let loc = info
                    .location()
                    .map(|l| format!("{}:{}", l.file(), l.line()))
                    .unwrap_or_else(|| "?:0".to_string());
                let msg = if let Some(s) = info.payload().downcast_ref::<&str>() {
                    s.to_string()
                } else if let Some(s) = info.payload().downcast_ref::<String>() {
                    s.clone()
                } else {
                    "<non-string panic>".to_string()
                };
                let mut g = LAST_PANIC.lock().unwrap_or_else(|e| e.into_inner());
                *g = format!("{}@{}", loc, squeeze(msg));
            }));
            hook_set = true;
        }
        let bytes = hcommon::hex_decode(line.trim());
        match String::from_utf8(bytes) {
            Ok(t) => front(&t),
            Err(_) => "NOTUTF8".to_string(),
        }
    });
}
