//! Parser for the textual type descriptions shared by the C17/C18 harnesses, the
//! OCaml model drivers and the Python generators (prefix notation, blank separated):
//!   I<w> U<w> F<w>           ints / floats, w = bit width (0 = weak, 255 = pointer sized)
//!   bool char str type any rawptr0 rawptr1 rawslice void nil never unknown nyr file<n>
//!   aarr <n> T | arr <n> T    anonymous / concrete array
//!   slice T | ptr0 T | ptr1 T (1 = mutable)
//!   dist <uid> T
//!   polyfn <n> | fn <loc> <k> T1..Tk R | fnptr <k> T1..Tk R
//!   astruct <k> <name> T ..   | struct <uid> <k> <name> T ..
//!   enum <uid> <k> T1..Tk     | var <enum_uid> <name> <uid> <discr> T
//!   opt T | eu E P
use hir::common::{FileName, MemberTy, NaiveGlobalLoc, NaiveLambdaLoc, NaiveLoc, Name, ParamTy, Ty};
use interner::Key;
use internment::Intern;
use la_arena::{Idx, RawIdx};

pub struct P<'a> {
    toks: Vec<&'a str>,
    pos: usize,
}

fn key(n: u32) -> Key {
    Key::from_raw(n + 1)
}

impl<'a> P<'a> {
    pub fn new(s: &'a str) -> Self {
        P { toks: s.split_whitespace().collect(), pos: 0 }
    }
    pub fn done(&self) -> bool {
        self.pos >= self.toks.len()
    }
    fn next(&mut self) -> Result<&'a str, String> {
        let t = self.toks.get(self.pos).copied().ok_or_else(|| "unexpected end".to_string())?;
        self.pos += 1;
        Ok(t)
    }
    fn num(&mut self) -> Result<u64, String> {
        let t = self.next()?;
        t.parse::<u64>().map_err(|_| format!("bad number {t}"))
    }
    fn params(&mut self) -> Result<Vec<ParamTy>, String> {
        let k = self.num()?;
        let mut v = Vec::new();
        for _ in 0..k {
            v.push(ParamTy { ty: self.ty()?, comptime: None, varargs: false, impossible_to_differentiate: false });
        }
        Ok(v)
    }
    fn members(&mut self) -> Result<Vec<MemberTy>, String> {
        let k = self.num()?;
        let mut v = Vec::new();
        for _ in 0..k {
            let name = Name(key(self.num()? as u32));
            v.push(MemberTy { name, ty: self.ty()? });
        }
        Ok(v)
    }
    pub fn ty(&mut self) -> Result<Intern<Ty>, String> {
        let t = self.next()?;
        let ty = match t {
            "bool" => Ty::Bool,
            "char" => Ty::Char,
            "str" => Ty::String,
            "type" => Ty::Type,
            "any" => Ty::Any,
            "rawptr0" => Ty::RawPtr { mutable: false },
            "rawptr1" => Ty::RawPtr { mutable: true },
            "rawslice" => Ty::RawSlice,
            "void" => Ty::Void,
            "nil" => Ty::Nil,
            "never" => Ty::AlwaysJumps,
            "unknown" => Ty::Unknown,
            "nyr" => Ty::NotYetResolved,
            "aarr" => {
                let size = self.num()?;
                Ty::AnonArray { size, sub_ty: self.ty()? }
            }
            "arr" => {
                let size = self.num()?;
                Ty::ConcreteArray { size, sub_ty: self.ty()? }
            }
            "slice" => Ty::Slice { sub_ty: self.ty()? },
            "ptr0" => Ty::Pointer { mutable: false, sub_ty: self.ty()? },
            "ptr1" => Ty::Pointer { mutable: true, sub_ty: self.ty()? },
            "dist" => {
                let uid = self.num()? as u32;
                Ty::Distinct { uid, sub_ty: self.ty()? }
            }
            "polyfn" => {
                let n = self.num()? as u32;
                Ty::NaivePolymorphicFunction {
                    fn_loc: NaiveLoc::Global(NaiveGlobalLoc { file: FileName(key(0)), name: Name(key(n)) }),
                }
            }
            "fn" => {
                let loc = self.num()? as u32;
                let param_tys = self.params()?;
                let return_ty = self.ty()?;
                let naive = NaiveLambdaLoc {
                    file: FileName(key(0)),
                    expr: Idx::from_raw(RawIdx::from(loc)),
                    lambda: Idx::from_raw(RawIdx::from(loc)),
                };
                Ty::ConcreteFunction { param_tys, return_ty, fn_loc: naive.make_concrete(None) }
            }
            "fnptr" => {
                let param_tys = self.params()?;
                let return_ty = self.ty()?;
                Ty::FunctionPointer { param_tys, return_ty }
            }
            "astruct" => Ty::AnonStruct { members: self.members()? },
            "struct" => {
                let uid = self.num()? as u32;
                Ty::ConcreteStruct { uid, members: self.members()? }
            }
            "enum" => {
                let uid = self.num()? as u32;
                let k = self.num()?;
                let mut variants = Vec::new();
                for _ in 0..k {
                    variants.push(self.ty()?);
                }
                Ty::Enum { uid, variants }
            }
            "var" => {
                let enum_uid = self.num()? as u32;
                let variant_name = Name(key(self.num()? as u32));
                let uid = self.num()? as u32;
                let discriminant = self.num()?;
                Ty::EnumVariant { enum_uid, variant_name, uid, sub_ty: self.ty()?, discriminant }
            }
            "opt" => Ty::Optional { sub_ty: self.ty()? },
            "eu" => {
                let error_ty = self.ty()?;
                let payload_ty = self.ty()?;
                Ty::ErrorUnion { error_ty, payload_ty }
            }
            _ => {
                let (h, r) = t.split_at(1);
                match h {
                    "I" | "U" | "F" => {
                        let w: u8 = r.parse().map_err(|_| format!("bad width {t}"))?;
                        match h {
                            "I" => Ty::IInt(w),
                            "U" => Ty::UInt(w),
                            _ => Ty::Float(w),
                        }
                    }
                    _ if t.starts_with("file") => {
                        let n: u32 = t[4..].parse().map_err(|_| format!("bad file {t}"))?;
                        Ty::File(FileName(key(n)))
                    }
                    _ => return Err(format!("unknown token {t}")),
                }
            }
        };
        Ok(Intern::new(ty))
    }
}

pub fn parse_ty(s: &str) -> Result<Intern<Ty>, String> {
    let mut p = P::new(s);
    let t = p.ty()?;
    if !p.done() {
        return Err("trailing tokens".to_string());
    }
    Ok(t)
}
