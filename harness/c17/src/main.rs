//! C17 harness. `h_c17 layout <pointer bits>`: one type description per line
//! (see typarse.rs) -> "<size> <align> <stride> O=<o1,o2,..|-> D=<d|->", or
//! "PANIC:<msg>" when calc_layouts / the accessors panic, "BAD:<msg>" on a
//! malformed description.  LAYOUTS is process global, so one process serves one
//! pointer width only.
//! `h_c17 pad`: "<offset> <align>" -> padding_needed_for.
mod typarse;
use codegen::verif_layout as V;

fn msg(e: Box<dyn std::any::Any + Send>) -> String {
    if let Some(s) = e.downcast_ref::<&str>() {
        s.to_string()
    } else if let Some(s) = e.downcast_ref::<String>() {
        s.clone()
    } else {
        "?".to_string()
    }
}

fn main() {
    let mode = std::env::args().nth(1).unwrap_or_default();
    let pw: u32 = std::env::args().nth(2).and_then(|s| s.parse().ok()).unwrap_or(64);
    hcommon::serve(|line| match mode.as_str() {
        "layout" => {
            let ty = match typarse::parse_ty(line) {
                Ok(t) => t,
                Err(e) => return format!("BAD:{e}"),
            };
            match std::panic::catch_unwind(|| V::layout_of(&[ty], pw)) {
                Ok(v) => {
                    let l = &v[0];
                    let offs = match &l.struct_offsets {
                        Some(o) if o.is_empty() => "".to_string(),
                        Some(o) => o.iter().map(|x| x.to_string()).collect::<Vec<_>>().join(","),
                        None => "-".to_string(),
                    };
                    let d = match l.discriminant_offset {
                        Some(d) => d.to_string(),
                        None => "-".to_string(),
                    };
                    format!("{} {} {} O={} D={}", l.size, l.align, l.stride, offs, d)
                }
                Err(e) => format!("PANIC:{}", msg(e)),
            }
        }
        "pad" => {
            let v: Vec<u32> = line.split_whitespace().filter_map(|x| x.parse().ok()).collect();
            if v.len() != 2 {
                return "BAD".to_string();
            }
            match std::panic::catch_unwind(|| V::padding_needed_for(v[0], v[1])) {
                Ok(p) => p.to_string(),
                Err(e) => format!("PANIC:{}", msg(e)),
            }
        }
        _ => panic!("unknown mode"),
    });
}
