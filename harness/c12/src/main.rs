//! C12/C13 harness.
//! mode `api`: lines "PAIRS <enum tys> ; a ; b1 ; b2 ; ..." (type syntax documented in
//!   /verif/ocaml/C12/driver.ml).  Builds real `Intern<Ty>` values, registers the enums
//!   with `set_enum_uid`, calls the real `Ty` methods and prints per row
//!   "<mbw a><zs a><cfn a> w1 w2 .." with per-b word
//!   "<fit><cast><weak><feqF><feqT><hs><cdf>:<max>:<fit a c><fit b c>" (P = caught panic).
//! mode `prog`: one hex-encoded capy source per line; runs the front end and prints
//!   "ok" | "diag:<Kind,Kind,..>" | "PANIC:<msg>".
use hir::common::{FileName, MemberTy, Name, NaiveLambdaLoc, NaiveLoc, ParamTy, Ty};
use internment::Intern;
use interner::Key;
use la_arena::{Idx, RawIdx};
use std::panic::{catch_unwind, AssertUnwindSafe};

struct P<'a> {
    toks: Vec<&'a str>,
    pos: usize,
}

impl<'a> P<'a> {
    fn next(&mut self) -> &'a str {
        let t = self.toks[self.pos];
        self.pos += 1;
        t
    }
    fn num(&mut self) -> u64 {
        self.next().parse().unwrap()
    }
    fn key(&mut self) -> Key {
        // Spur is non-zero
        Key::from_raw(self.num() as u32 + 1)
    }
    fn lambda_loc(&mut self) -> NaiveLambdaLoc {
        let n = self.num() as u32;
        NaiveLambdaLoc {
            file: FileName(Key::from_raw(1)),
            expr: Idx::from_raw(RawIdx::from(n)),
            lambda: Idx::from_raw(RawIdx::from(0u32)),
        }
    }
    fn params(&mut self) -> Vec<ParamTy> {
        let k = self.num();
        (0..k)
            .map(|_| {
                let fl: Vec<&str> = self.next().split(',').collect();
                let c: i64 = fl[0].parse().unwrap();
                let ty = self.ty();
                ParamTy {
                    ty,
                    comptime: if c < 0 { None } else { Some(c as usize) },
                    varargs: fl[1] == "1",
                    impossible_to_differentiate: fl[2] == "1",
                }
            })
            .collect()
    }
    fn members(&mut self) -> Vec<MemberTy> {
        let k = self.num();
        (0..k)
            .map(|_| {
                let name = Name(self.key());
                let ty = self.ty();
                MemberTy { name, ty }
            })
            .collect()
    }
    fn ty(&mut self) -> Intern<Ty> {
        let t = self.next();
        let ty = match t {
            "NYR" => Ty::NotYetResolved,
            "UNK" => Ty::Unknown,
            "BOOL" => Ty::Bool,
            "STR" => Ty::String,
            "CHAR" => Ty::Char,
            "TYPE" => Ty::Type,
            "ANY" => Ty::Any,
            "RS" => Ty::RawSlice,
            "NIL" => Ty::Nil,
            "VOID" => Ty::Void,
            "AJ" => Ty::AlwaysJumps,
            "AA" => {
                let size = self.num();
                Ty::AnonArray { size, sub_ty: self.ty() }
            }
            "A" => {
                let size = self.num();
                Ty::ConcreteArray { size, sub_ty: self.ty() }
            }
            "SL" => Ty::Slice { sub_ty: self.ty() },
            "P" => {
                let mutable = self.next() == "1";
                Ty::Pointer { mutable, sub_ty: self.ty() }
            }
            "D" => {
                let uid = self.num() as u32;
                Ty::Distinct { uid, sub_ty: self.ty() }
            }
            "RP" => Ty::RawPtr { mutable: self.next() == "1" },
            "FILE" => Ty::File(FileName(self.key())),
            "PF" => Ty::NaivePolymorphicFunction { fn_loc: NaiveLoc::Lambda(self.lambda_loc()) },
            "FN" => {
                let param_tys = self.params();
                let return_ty = self.ty();
                let fn_loc = self.lambda_loc().make_concrete(None);
                Ty::ConcreteFunction { param_tys, return_ty, fn_loc }
            }
            "FP" => {
                let param_tys = self.params();
                let return_ty = self.ty();
                Ty::FunctionPointer { param_tys, return_ty }
            }
            "AS" => Ty::AnonStruct { members: self.members() },
            "S" => {
                let uid = self.num() as u32;
                Ty::ConcreteStruct { uid, members: self.members() }
            }
            "E" => {
                let uid = self.num() as u32;
                let k = self.num();
                let variants = (0..k).map(|_| self.ty()).collect();
                Ty::Enum { uid, variants }
            }
            "V" => {
                let enum_uid = self.num() as u32;
                let variant_name = Name(self.key());
                let uid = self.num() as u32;
                let sub_ty = self.ty();
                let discriminant = self.num();
                Ty::EnumVariant { enum_uid, variant_name, uid, sub_ty, discriminant }
            }
            "O" => Ty::Optional { sub_ty: self.ty() },
            "EU" => {
                let error_ty = self.ty();
                let payload_ty = self.ty();
                Ty::ErrorUnion { error_ty, payload_ty }
            }
            _ => {
                let w: u8 = t[1..].parse().unwrap();
                match &t[..1] {
                    "i" => Ty::IInt(w),
                    "u" => Ty::UInt(w),
                    "f" => Ty::Float(w),
                    _ => panic!("bad token {t}"),
                }
            }
        };
        ty.into()
    }
}

fn show(t: &Ty, out: &mut Vec<String>) {
    let loc = |l: &NaiveLambdaLoc| l.expr.into_raw().into_u32().to_string();
    let key = |k: Key| (k.to_raw() - 1).to_string();
    match t {
        Ty::NotYetResolved => out.push("NYR".into()),
        Ty::Unknown => out.push("UNK".into()),
        Ty::IInt(w) => out.push(format!("i{w}")),
        Ty::UInt(w) => out.push(format!("u{w}")),
        Ty::Float(w) => out.push(format!("f{w}")),
        Ty::Bool => out.push("BOOL".into()),
        Ty::String => out.push("STR".into()),
        Ty::Char => out.push("CHAR".into()),
        Ty::AnonArray { size, sub_ty } => {
            out.push("AA".into());
            out.push(size.to_string());
            show(sub_ty, out)
        }
        Ty::ConcreteArray { size, sub_ty } => {
            out.push("A".into());
            out.push(size.to_string());
            show(sub_ty, out)
        }
        Ty::Slice { sub_ty } => {
            out.push("SL".into());
            show(sub_ty, out)
        }
        Ty::Pointer { mutable, sub_ty } => {
            out.push("P".into());
            out.push((*mutable as u8).to_string());
            show(sub_ty, out)
        }
        Ty::Distinct { uid, sub_ty } => {
            out.push("D".into());
            out.push(uid.to_string());
            show(sub_ty, out)
        }
        Ty::Type => out.push("TYPE".into()),
        Ty::Any => out.push("ANY".into()),
        Ty::RawPtr { mutable } => {
            out.push("RP".into());
            out.push((*mutable as u8).to_string())
        }
        Ty::RawSlice => out.push("RS".into()),
        Ty::File(f) => {
            out.push("FILE".into());
            out.push(key(f.0))
        }
        Ty::NaivePolymorphicFunction { fn_loc } => {
            out.push("PF".into());
            match fn_loc {
                NaiveLoc::Lambda(l) => out.push(loc(l)),
                NaiveLoc::Global(_) => out.push("?".into()),
            }
        }
        Ty::ConcreteFunction { param_tys, return_ty, fn_loc } => {
            out.push("FN".into());
            show_params(param_tys, out);
            show(return_ty, out);
            out.push(loc(&fn_loc.to_naive()))
        }
        Ty::FunctionPointer { param_tys, return_ty } => {
            out.push("FP".into());
            show_params(param_tys, out);
            show(return_ty, out)
        }
        Ty::AnonStruct { members } => {
            out.push("AS".into());
            out.push(members.len().to_string());
            for m in members {
                out.push(key(m.name.0));
                show(&m.ty, out)
            }
        }
        Ty::ConcreteStruct { uid, members } => {
            out.push("S".into());
            out.push(uid.to_string());
            out.push(members.len().to_string());
            for m in members {
                out.push(key(m.name.0));
                show(&m.ty, out)
            }
        }
        Ty::Enum { uid, variants } => {
            out.push("E".into());
            out.push(uid.to_string());
            out.push(variants.len().to_string());
            for v in variants {
                show(v, out)
            }
        }
        Ty::EnumVariant { enum_uid, variant_name, uid, sub_ty, discriminant } => {
            out.push("V".into());
            out.push(enum_uid.to_string());
            out.push(key(variant_name.0));
            out.push(uid.to_string());
            show(sub_ty, out);
            out.push(discriminant.to_string())
        }
        Ty::Nil => out.push("NIL".into()),
        Ty::Optional { sub_ty } => {
            out.push("O".into());
            show(sub_ty, out)
        }
        Ty::ErrorUnion { error_ty, payload_ty } => {
            out.push("EU".into());
            show(error_ty, out);
            show(payload_ty, out)
        }
        Ty::Void => out.push("VOID".into()),
        Ty::AlwaysJumps => out.push("AJ".into()),
    }
}

fn show_params(ps: &[ParamTy], out: &mut Vec<String>) {
    out.push(ps.len().to_string());
    for p in ps {
        out.push(format!(
            "{},{},{}",
            p.comptime.map(|c| c as i64).unwrap_or(-1),
            p.varargs as u8,
            p.impossible_to_differentiate as u8
        ));
        show(&p.ty, out)
    }
}

fn b<F: FnOnce() -> bool>(f: F) -> char {
    match catch_unwind(AssertUnwindSafe(f)) {
        Ok(true) => '1',
        Ok(false) => '0',
        Err(_) => 'P',
    }
}

fn sections(line: &str) -> Vec<Vec<&str>> {
    let mut out = vec![Vec::new()];
    for t in line.split_whitespace() {
        if t == ";" {
            out.push(Vec::new());
        } else {
            out.last_mut().unwrap().push(t);
        }
    }
    out
}

fn parse_one(toks: &[&str]) -> Intern<Ty> {
    let mut p = P { toks: toks.to_vec(), pos: 0 };
    let t = p.ty();
    assert_eq!(p.pos, p.toks.len(), "trailing tokens");
    t
}

fn api(line: &str) -> String {
    let secs = sections(line);
    if secs.len() < 2 || secs[0].first() != Some(&"PAIRS") {
        return "!BADLINE".into();
    }
    // ENUM_MAP: start from an empty map on every line, then register the listed enums
    hir::common::ENUM_MAP.with_borrow_mut(|m| m.clear());
    {
        let mut p = P { toks: secs[0][1..].to_vec(), pos: 0 };
        while p.pos < p.toks.len() {
            let e = p.ty();
            if let Ty::Enum { uid, .. } = e.as_ref() {
                hir::common::set_enum_uid(*uid, e);
            }
        }
    }
    let a = parse_one(&secs[1]);
    let mut s = String::new();
    s.push(b(|| a.might_be_weak()));
    s.push(b(|| a.is_zero_sized()));
    s.push(b(|| a.can_be_created_from_nothing()));
    for bt in &secs[2..] {
        let o = parse_one(bt);
        s.push(' ');
        s.push(b(|| a.can_fit_into(&o)));
        s.push(b(|| a.can_cast_to(&o)));
        s.push(b(|| a.is_weak_replaceable_by(&o)));
        s.push(b(|| a.is_functionally_equivalent_to(&o, false)));
        s.push(b(|| a.is_functionally_equivalent_to(&o, true)));
        s.push(b(|| a.has_semantics_of(&o)));
        s.push(b(|| a.can_differentiate_from(&o)));
        s.push(':');
        match catch_unwind(AssertUnwindSafe(|| a.max(&o))) {
            Err(_) => s.push_str("P:--"),
            Ok(None) => s.push_str("N:--"),
            Ok(Some(c)) => {
                if c == *a {
                    s.push('A');
                } else if c == *o {
                    s.push('B');
                } else {
                    let mut v = Vec::new();
                    show(&c, &mut v);
                    s.push('=');
                    s.push_str(&v.join("_"));
                }
                s.push(':');
                s.push(b(|| a.can_fit_into(&c)));
                s.push(b(|| o.can_fit_into(&c)));
            }
        }
    }
    s
}

fn prog(line: &str) -> String {
    let bytes = hcommon::hex_decode(line.trim());
    let text = match String::from_utf8(bytes) {
        Ok(t) => t,
        Err(_) => return "NOTUTF8".into(),
    };
    let files = vec![("main.capy".to_string(), text)];
    let fo = hcommon::frontend(&files, false, false);
    if let Some(p) = fo.infer_panic {
        return format!("PANIC:{}", p.chars().take(160).collect::<String>());
    }
    if fo.diags.is_empty() {
        return "ok".into();
    }
    let kinds: Vec<String> = fo.diags.iter().map(|d| format!("{}.{}", d.stage, d.kind)).collect();
    format!("diag:{}", kinds.join(","))
}

fn main() {
    let mode = std::env::args().nth(1).unwrap_or_default();
    hcommon::serve(|line| match mode.as_str() {
        "api" => match catch_unwind(AssertUnwindSafe(|| api(line))) {
            Ok(s) => s,
            Err(_) => "!HARNESS-PANIC".into(),
        },
        "prog" => prog(line),
        _ => panic!("unknown mode"),
    });
}
