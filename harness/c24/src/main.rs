//! C24 harness.  One case per line:  "<entry><spacing> tok tok tok ..."
//!   entry   S = source file `x :: <expr> ;`   R = REPL line `<expr>`
//!   spacing s = one space between all tokens   c = compact (a space only where the real
//!           lexer would otherwise merge two adjacent tokens)   n = newline + comment trivia
//!           (s, c, n keep `.(` and `.try` adjacent)   w = one space between ALL tokens
//! Result: "<errors> <sexpr>" where <sexpr> is the shape of the expression read through the
//! `ast` crate accessors (the ones hir::body lowering uses), or PANIC:<msg>, or LEX:<why>
//! when the rendered text does not lex back to the requested token texts; followed by
//! " @@ <rendered text>".
use ast::{AstNode, AstToken};
use syntax::SyntaxTree;

fn is_trivia(k: syntax::TokenKind) -> bool {
    matches!(
        k,
        syntax::TokenKind::Whitespace | syntax::TokenKind::CommentLeader | syntax::TokenKind::CommentContents
    )
}

fn lex_texts(text: &str) -> Vec<String> {
    let toks = lexer::lex(text);
    let mut v = Vec::new();
    for i in 0..toks.len() {
        if !is_trivia(toks.kind(i)) {
            let r = toks.range(i);
            v.push(text[usize::from(r.start())..usize::from(r.end())].to_string());
        }
    }
    v
}

fn render(toks: &[&str], spacing: char) -> String {
    let mut s = String::new();
    for (i, t) in toks.iter().enumerate() {
        // `.(` and `.try` are single syntactic units of the language (`ty.(v)`, `e.try`);
        // every mode except 'w' keeps them adjacent
        let glued = i > 0 && toks[i - 1] == "." && (*t == "(" || *t == "try") && spacing != 'w';
        if i > 0 && !glued {
            match spacing {
                's' | 'w' => s.push(' '),
                'n' => s.push_str(if i % 3 == 0 { " // c\n" } else { "\n\t" }),
                _ => {
                    let two = format!("{}{}", toks[i - 1], t);
                    let l = lex_texts(&two);
                    if !(l.len() == 2 && l[0] == toks[i - 1] && l[1] == *t) {
                        s.push(' ');
                    }
                }
            }
        }
        s.push_str(t);
    }
    s
}

fn opt(e: Option<ast::Expr>, tree: &SyntaxTree) -> String {
    match e {
        Some(e) => sexpr(e, tree),
        None => "_".to_string(),
    }
}

fn ty(t: Option<ast::Ty>, tree: &SyntaxTree) -> String {
    match t {
        Some(t) => opt(t.expr(tree), tree),
        None => "_".to_string(),
    }
}

fn sexpr(e: ast::Expr, tree: &SyntaxTree) -> String {
    use ast::Expr::*;
    match e {
        VarRef(_) => "v".into(),
        IntLiteral(_) => "i".into(),
        FloatLiteral(_) => "f".into(),
        BoolLiteral(_) => "b".into(),
        Paren(p) => format!("(P {})", opt(p.expr(tree), tree)),
        Unary(u) => {
            let op = u.op(tree).map(|o| o.text(tree).to_string()).unwrap_or("_".into());
            format!("(U{} {})", op, opt(u.expr(tree), tree))
        }
        Ref(r) => format!(
            "({} {})",
            if r.mutable(tree).is_some() { "RM" } else { "R" },
            opt(r.expr(tree), tree)
        ),
        Deref(d) => format!("(D {})", opt(d.pointer(tree), tree)),
        Binary(b) => {
            let op = b.op(tree).map(|o| o.text(tree).to_string()).unwrap_or("_".into());
            format!("(B{} {} {})", op, opt(b.lhs(tree), tree), opt(b.rhs(tree), tree))
        }
        Call(c) => {
            let mut s = format!("(C {}", opt(c.callee(tree), tree));
            match c.arg_list(tree) {
                Some(al) => {
                    for a in al.args(tree) {
                        s.push(' ');
                        s.push_str(&opt(a.value(tree), tree));
                    }
                }
                None => s.push_str(" NOARGLIST"),
            }
            s.push(')');
            s
        }
        IndexExpr(ix) => format!(
            "(I {} {})",
            match ix.array(tree) { Some(a) => opt(a.value(tree), tree), None => "_".into() },
            match ix.index(tree) { Some(a) => opt(a.value(tree), tree), None => "_".into() }
        ),
        Path(p) => format!(
            "(F {}{})",
            opt(p.previous_part(tree), tree),
            if p.field_name(tree).is_some() { "" } else { " NONAME" }
        ),
        Propagate(p) => format!("(T {})", opt(p.expr(tree), tree)),
        Cast(c) => match c.expr(tree) {
            Some(v) => format!("(K {} {})", ty(c.ty(tree), tree), sexpr(v, tree)),
            None => format!("(K {})", ty(c.ty(tree), tree)),
        },
        other => format!("(?{:?})", other.syntax().kind(tree)),
    }
}

fn panic_msg(e: Box<dyn std::any::Any + Send>) -> String {
    if let Some(s) = e.downcast_ref::<&str>() {
        s.to_string()
    } else if let Some(s) = e.downcast_ref::<String>() {
        s.clone()
    } else {
        "<non-string panic>".to_string()
    }
}

fn main() {
    hcommon::serve(|line| {
        let mut it = line.split(' ').filter(|s| !s.is_empty());
        let mode = it.next().unwrap_or("Rs");
        let entry = mode.chars().next().unwrap_or('R');
        let spacing = mode.chars().nth(1).unwrap_or('s');
        let etoks: Vec<&str> = it.collect();
        let mut toks: Vec<&str> = Vec::new();
        if entry == 'S' {
            toks.extend(["x", ":", ":"]);
        }
        toks.extend(etoks.iter());
        if entry == 'S' {
            toks.push(";");
        }
        let text = render(&toks, spacing);
        let lexed = lex_texts(&text);
        if lexed.len() != toks.len() || lexed.iter().zip(toks.iter()).any(|(a, b)| a != b) {
            return format!("LEX:{}", text);
        }
        let r = std::panic::catch_unwind(|| {
            let tokens = lexer::lex(&text);
            let parse = if entry == 'S' {
                parser::parse_source_file(&tokens, &text)
            } else {
                parser::parse_repl_line(&tokens, &text)
            };
            let nerr = parse.errors().len();
            let tree = parse.into_syntax_tree();
            let lossless = tree.root().text(&tree) == text;
            let root = ast::Root::cast(tree.root(), &tree).unwrap();
            let exprs: Vec<String> = if entry == 'S' {
                root.defs(&tree)
                    .map(|d| match d {
                        ast::Define::Binding(b) => opt(b.value(&tree), &tree),
                        ast::Define::Variable(v) => opt(v.value(&tree), &tree),
                    })
                    .collect()
            } else {
                root.stmts(&tree)
                    .map(|s| match s {
                        ast::Stmt::Expr(e) => opt(e.expr(&tree), &tree),
                        _ => "(?stmt)".to_string(),
                    })
                    .collect()
            };
            format!("{}{} {}", nerr, if lossless { "" } else { "!LOSSY" }, exprs.join(" ; "))
        });
        match r {
            Ok(s) => format!("{} @@ {}", s, text),
            Err(e) => format!("PANIC:{} @@ {}", panic_msg(e), text),
        }
    });
}
