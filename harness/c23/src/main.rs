//! C23 harness.  One case per line: "<S|R><flags> <hex of the input text>"
//!   S = parse_source_file, R = parse_repl_line; flag `t` = also dump events, tokens and tree.
//! Result:
//!   "PANIC:<msg>"                                  (caught panic in lexer/parser/sink)
//!   "ok <lossless 0|1> <nerr> <bad> <micros> <ntok> <nbytes> <errs>[ | <events> | <tokens> | <tree>]"
//!   micros = CPU time of the parsing thread (lex + parse + sink)
//!   bad  = number of syntax errors whose offset/range is not within 0..=len (or start > end)
//!   errs = "lo-hi,lo-hi,..." (Missing{offset} as offset-offset)
//!   events: "S<NodeKind> F A ..."; tokens: "<TokenKind>:<len>[:<text of rawptr|import|mod|_>] ..."; tree: "(Kind lo hi kids..)" tokens "[Kind lo hi]"
use std::fmt::Write;
use syntax::{SyntaxElement, SyntaxNode, SyntaxTree};

/// CPU time of the calling thread in microseconds (wall time is useless on a loaded machine)
fn thread_cpu_micros() -> u128 {
    let mut ts = libc::timespec { tv_sec: 0, tv_nsec: 0 };
    unsafe { libc::clock_gettime(libc::CLOCK_THREAD_CPUTIME_ID, &mut ts) };
    (ts.tv_sec as u128) * 1_000_000 + (ts.tv_nsec as u128) / 1000
}

fn panic_msg(e: Box<dyn std::any::Any + Send>) -> String {
    if let Some(s) = e.downcast_ref::<&str>() {
        s.to_string()
    } else if let Some(s) = e.downcast_ref::<String>() {
        s.clone()
    } else {
        "<non-string panic>".to_string()
    }
}

fn dump(node: SyntaxNode, tree: &SyntaxTree, out: &mut String) {
    let r = node.range(tree);
    write!(out, "({:?} {} {}", node.kind(tree), u32::from(r.start()), u32::from(r.end())).unwrap();
    for c in node.children(tree) {
        match c {
            SyntaxElement::Node(n) => {
                out.push(' ');
                dump(n, tree, out)
            }
            SyntaxElement::Token(t) => {
                let r = t.range(tree);
                write!(out, " [{:?} {} {}]", t.kind(tree), u32::from(r.start()), u32::from(r.end())).unwrap();
            }
        }
    }
    out.push(')');
}

/// Per-case watchdog: the case runs in its own thread; if it does not finish within
/// $C23_CASE_TIMEOUT_MS (default 5000) of CPU time of that thread (or 40x that in wall time) the whole process exits with status 99, which the
/// orchestrator reports as a hang of exactly that case.  An address-space limit keeps a
/// runaway parser from exhausting the machine.
fn main() {
    let limit_ms: u64 = std::env::var("C23_CASE_TIMEOUT_MS").ok().and_then(|s| s.parse().ok()).unwrap_or(5000);
    // one persistent worker thread (big stack for deep nesting); the main thread is the watchdog
    let (tx_job, rx_job) = std::sync::mpsc::channel::<String>();
    let (tx_res, rx_res) = std::sync::mpsc::channel::<String>();
    let h = std::thread::Builder::new()
        .stack_size(64 << 20)
        .spawn(move || {
            while let Ok(line) = rx_job.recv() {
                if tx_res.send(one_case(&line)).is_err() {
                    break;
                }
            }
        })
        .unwrap();
    let mut clock: libc::clockid_t = 0;
    let have_clock =
        unsafe { libc::pthread_getcpuclockid(std::os::unix::thread::JoinHandleExt::as_pthread_t(&h), &mut clock) == 0 };
    let cpu_ms = move || -> u64 {
        let mut ts = libc::timespec { tv_sec: 0, tv_nsec: 0 };
        if have_clock && unsafe { libc::clock_gettime(clock, &mut ts) } == 0 {
            ts.tv_sec as u64 * 1000 + ts.tv_nsec as u64 / 1_000_000
        } else {
            0
        }
    };
    hcommon::serve(move |line| {
        let c0 = cpu_ms();
        let t0 = std::time::Instant::now();
        tx_job.send(line.to_string()).unwrap();
        loop {
            match rx_res.recv_timeout(std::time::Duration::from_millis(50)) {
                Ok(s) => return s,
                Err(std::sync::mpsc::RecvTimeoutError::Disconnected) => std::process::exit(98),
                Err(std::sync::mpsc::RecvTimeoutError::Timeout) => {
                    if cpu_ms() - c0 > limit_ms || t0.elapsed().as_millis() as u64 > 40 * limit_ms {
                        std::process::exit(99);
                    }
                }
            }
        }
    });
}

fn one_case(line: &str) -> String {
    {
        let mut it = line.split(' ').filter(|s| !s.is_empty());
        let mode = it.next().unwrap_or("S");
        let repl = mode.starts_with('R');
        let full = mode.contains('t');
        let bytes = hcommon::hex_decode(it.next().unwrap_or(""));
        let text = match String::from_utf8(bytes) {
            Ok(t) => t,
            Err(_) => return "NOTUTF8".to_string(),
        };
        // events + tokens first (parser only, no sink), so that they are available when the sink panics
        let mut extra = String::new();
        if full {
            // tokens first: lexing always terminates, the parser may not
            let tokens = lexer::lex(&text);
            let mut tk = String::new();
            for i in 0..tokens.len() {
                let r = tokens.range(i);
                write!(tk, "{:?}:{}", tokens.kind(i), u32::from(r.end()) - u32::from(r.start())).unwrap();
                let t = &text[usize::from(r.start())..usize::from(r.end())];
                if tokens.kind(i) == syntax::TokenKind::Ident && matches!(t, "rawptr" | "import" | "mod" | "_") {
                    write!(tk, ":{}", t).unwrap();
                }
                tk.push(' ');
            }
            let e = std::panic::catch_unwind(|| {
                parser::verif::reset();
                let tokens = lexer::lex(&text);
                let (evs, _n) = parser::verif::events(&tokens, &text, repl);
                let mut s = String::new();
                for (tag, kind) in &evs {
                    match tag {
                        0 => write!(s, "S{} ", kind).unwrap(),
                        1 => s.push_str("F "),
                        _ => s.push_str("A "),
                    }
                }
                s
            });
            extra = match e {
                Ok(s) => format!(" | {}| {}", s, tk),
                Err(e) => format!(" | PANIC-IN-PARSER:{} | {}", panic_msg(e), tk),
            };
        }
        let r = std::panic::catch_unwind(|| {
            let t0 = thread_cpu_micros();
            parser::verif::reset();
            let tokens = lexer::lex(&text);
            let parse = if repl {
                parser::parse_repl_line(&tokens, &text)
            } else {
                parser::parse_source_file(&tokens, &text)
            };
            let micros = thread_cpu_micros() - t0;
            let len = text.len() as u32;
            let mut bad = 0;
            let mut errs = String::new();
            for e in parse.errors() {
                let (lo, hi) = match e.kind {
                    parser::SyntaxErrorKind::Missing { offset } => (u32::from(offset), u32::from(offset)),
                    parser::SyntaxErrorKind::UnexpectedToken { range, .. }
                    | parser::SyntaxErrorKind::UnexpectedNode { range, .. } => {
                        (u32::from(range.start()), u32::from(range.end()))
                    }
                };
                if lo > hi || hi > len {
                    bad += 1;
                }
                if errs.len() < 4000 {
                    write!(errs, "{}-{},", lo, hi).unwrap();
                }
            }
            let nerr = parse.errors().len();
            let tree = parse.into_syntax_tree();
            let root = tree.root();
            let lossless = root.text(&tree) == text;
            let mut s = format!(
                "ok {} {} {} {} {} {} {}",
                lossless as u8,
                nerr,
                bad,
                micros,
                tokens.len(),
                text.len(),
                if errs.is_empty() { "-" } else { &errs }
            );
            if full {
                s.push_str(&extra);
                s.push_str("| ");
                dump(root, &tree, &mut s);
            }
            s
        });
        match r {
            Ok(s) => s,
            Err(e) => format!("PANIC:{}{}", panic_msg(e), extra),
        }
    }
}
