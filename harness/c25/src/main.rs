//! C25 harness.
//! mode `linecol`: one hex text per line; result: for offsets 0..=len+1
//!   "L:C" (1-based as rendered = line+1, col+1), or PANIC on a caught panic.
//! mode `diag`: one hex source text per line; runs the front end, renders
//!   every diagnostic and returns a list "<start>=<L>:<C>" parsed from the
//!   `--> at file:L:C` header (or start=PANIC).
use text_size::TextSize;

fn main() {
    let mode = std::env::args().nth(1).unwrap_or_default();
    hcommon::serve(|line| {
        let bytes = hcommon::hex_decode(line.trim());
        let text = match String::from_utf8(bytes) {
            Ok(t) => t,
            Err(_) => return "NOTUTF8".to_string(),
        };
        let mut s = String::new();
        match mode.as_str() {
            "linecol" => {
                let li = line_index::LineIndex::new(&text);
                for off in 0..=(text.len() as u32 + 1) {
                    let r = std::panic::catch_unwind(|| li.line_col(TextSize::from(off)));
                    match r {
                        Ok((l, c)) => s.push_str(&format!("{}:{} ", l.0 + 1, c.0 + 1)),
                        Err(_) => s.push_str("PANIC "),
                    }
                }
            }
            "diag" => {
                let files = vec![("main.capy".to_string(), text)];
                let fo = hcommon::frontend(&files, false, true);
                for d in &fo.diags {
                    match &d.rendered {
                        Ok(lines) => {
                            let hdr = lines.iter().find(|l| l.contains("--> at "));
                            match hdr {
                                Some(h) => {
                                    let mut it = h.rsplitn(3, ':');
                                    let c = it.next().unwrap_or("?");
                                    let l = it.next().unwrap_or("?");
                                    s.push_str(&format!("{}={}:{} ", d.start, l, c));
                                }
                                None => s.push_str(&format!("{}=NOHEADER ", d.start)),
                            }
                        }
                        Err(_) => s.push_str(&format!("{}=PANIC ", d.start)),
                    }
                }
            }
            _ => panic!("unknown mode"),
        }
        s.trim_end().to_string()
    });
}
