//! C09 harness.  One hex-encoded source text per line; runs the front end
//! (lex, parse, validate, index, lower, infer; no comptime evaluation) and
//! returns the error diagnostics as "stage:Kind@start" items separated by ','
//! ("-" when there are none), or PANIC:<msg> when inference panicked.
fn main() {
    hcommon::serve(|line| {
        let bytes = hcommon::hex_decode(line.trim());
        let text = match String::from_utf8(bytes) {
            Ok(t) => t,
            Err(_) => return "NOTUTF8".to_string(),
        };
        let files = vec![("main.capy".to_string(), text)];
        let r = std::panic::catch_unwind(|| hcommon::frontend(&files, false, false));
        match r {
            Err(_) => "PANIC:frontend".to_string(),
            Ok(fo) => {
                if let Some(p) = fo.infer_panic {
                    return format!("PANIC:{}", p.replace('\n', " "));
                }
                let mut items: Vec<String> = fo
                    .diags
                    .iter()
                    .filter(|d| d.is_error)
                    .map(|d| format!("{}:{}@{}", d.stage, d.kind, d.start))
                    .collect();
                items.sort();
                if items.is_empty() { "-".to_string() } else { items.join(",") }
            }
        }
    });
}
