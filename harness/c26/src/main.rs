//! C26 harness.
//! mode `ops`: one API call sequence per line (same syntax as ocaml/C26/driver.ml
//!   "ops ..."), executed on the real `topo::TopoSort<u32>`; after every call prints
//!   `ret|len|peek_all|peek_all_cyclic|drain` where drain empties a clone with
//!   pop_all / pop_all_cyclic. A panic (caught) prints PANIC and ends the line.
//! mode `front`: `eval_comptime(0/1) name:hex name:hex ...` runs the real front end
//!   (lex..infer) in process and returns the TopoSort call traces recorded by the
//!   `capy_verif` hook in hir_ty::InferenceCtx::finish (CAPY_VERIF_TRACE).
use std::panic::{catch_unwind, AssertUnwindSafe};
use topo::TopoSort;

fn lst<'a, I: IntoIterator<Item = &'a u32>>(l: I) -> String {
    let v: Vec<String> = l.into_iter().map(|x| x.to_string()).collect();
    format!("[{}]", v.join(","))
}
fn b2s(b: bool) -> &'static str {
    if b { "t" } else { "f" }
}
fn peek_res(r: Result<Vec<&u32>, topo::CycleErr>) -> String {
    match r {
        Ok(l) => format!("ok{}", lst(l)),
        Err(_) => "cyc".to_string(),
    }
}
fn opt_l(r: Option<Vec<&u32>>) -> String {
    match r {
        Some(l) => lst(l),
        None => "-".to_string(),
    }
}

fn drain(t: &TopoSort<u32>) -> String {
    let mut c = t.clone();
    let mut s = String::new();
    let r = catch_unwind(AssertUnwindSafe(|| {
        let mut fuel = c.len() + 2;
        loop {
            if fuel == 0 {
                s.push_str("FUEL");
                break;
            }
            fuel -= 1;
            match c.pop_all() {
                Ok(l) if l.is_empty() => break,
                Ok(l) => s.push_str(&lst(&l)),
                Err(_) => {
                    let r = c.pop_all_cyclic();
                    s.push('!');
                    match r {
                        Some(l) => s.push_str(&lst(&l)),
                        None => s.push('-'),
                    }
                }
            }
        }
    }));
    if r.is_err() {
        s.push_str("PANIC");
    }
    s
}

fn obs(t: &TopoSort<u32>, ret: &str) -> String {
    format!(
        "{}|{}|{}|{}|{}",
        ret,
        t.len(),
        peek_res(t.peek_all()),
        opt_l(t.peek_all_cyclic()),
        drain(t)
    )
}

fn run_ops(line: &str) -> String {
    let toks: Vec<&str> = line.split_whitespace().collect();
    let mut out: Vec<String> = Vec::new();
    let mut t: TopoSort<u32> = TopoSort::new();
    let mut i = 0;
    if toks.first() == Some(&"ops") {
        i = 1;
    }
    let num = |s: &str| -> u32 { s.parse().unwrap() };
    while i < toks.len() {
        let op = toks[i];
        i += 1;
        let r = catch_unwind(AssertUnwindSafe(|| -> String {
            match op {
                "D" => {
                    t.insert_dep(num(toks[i]), num(toks[i + 1]));
                    i += 2;
                    String::new()
                }
                "M" => {
                    let p = num(toks[i]);
                    let n = num(toks[i + 1]) as usize;
                    let cs: Vec<u32> = toks[i + 2..i + 2 + n].iter().map(|s| num(s)).collect();
                    i += 2 + n;
                    t.insert_deps(p, cs);
                    String::new()
                }
                "I" => {
                    let b = t.insert(num(toks[i]));
                    i += 1;
                    b2s(b).to_string()
                }
                "X" => {
                    let n = num(toks[i]) as usize;
                    let xs: Vec<u32> = toks[i + 1..i + 1 + n].iter().map(|s| num(s)).collect();
                    i += 1 + n;
                    t.extend(xs);
                    String::new()
                }
                "R" => {
                    let x = num(toks[i]);
                    i += 1;
                    b2s(t.remove(&x)).to_string()
                }
                "k" => match t.peek() {
                    None => "-".to_string(),
                    Some(Ok(x)) => format!("ok{}", x),
                    Some(Err(_)) => "cyc".to_string(),
                },
                "K" => peek_res(t.peek_all()),
                "o" => match t.pop() {
                    None => "-".to_string(),
                    Some(Ok(x)) => format!("ok{}", x),
                    Some(Err(_)) => "cyc".to_string(),
                },
                "O" => match t.pop_all() {
                    Ok(l) => format!("ok{}", lst(&l)),
                    Err(_) => "cyc".to_string(),
                },
                "y" => b2s(t.in_cycle()).to_string(),
                "c" => match t.peek_cyclic() {
                    Some(x) => x.to_string(),
                    None => "-".to_string(),
                },
                "C" => opt_l(t.peek_all_cyclic()),
                "q" => match t.pop_cyclic() {
                    Some(x) => x.to_string(),
                    None => "-".to_string(),
                },
                "Q" => match t.pop_all_cyclic() {
                    Some(l) => lst(&l),
                    None => "-".to_string(),
                },
                "n" => t.len().to_string(),
                "e" => b2s(t.is_empty()).to_string(),
                "z" => {
                    t.clear();
                    String::new()
                }
                _ => panic!("bad op"),
            }
        }));
        match r {
            Ok(ret) => out.push(obs(&t, &ret)),
            Err(_) => {
                out.push("PANIC".to_string());
                break;
            }
        }
    }
    out.join(";")
}

fn run_front(line: &str, trace_path: &str) -> String {
    let mut it = line.split_whitespace();
    let eval = it.next() == Some("1");
    let mut files = Vec::new();
    for tok in it {
        if let Some((name, hex)) = tok.split_once(':') {
            match String::from_utf8(hcommon::hex_decode(hex)) {
                Ok(t) => files.push((name.to_string(), t)),
                Err(_) => return "NOTUTF8".to_string(),
            }
        }
    }
    let _ = std::fs::write(trace_path, "");
    let fo = hcommon::frontend(&files, eval, false);
    let tr = std::fs::read_to_string(trace_path).unwrap_or_default();
    format!(
        "err={} panic={} ##{}",
        b2s(fo.has_errors),
        match &fo.infer_panic {
            Some(m) => m.replace(' ', "_").chars().take(80).collect::<String>(),
            None => "-".to_string(),
        },
        tr.trim_end()
    )
}

fn main() {
    let mode = std::env::args().nth(1).unwrap_or_default();
    let trace_path = format!(
        "{}/verif-c26-trace-{}",
        std::env::temp_dir().display(),
        std::process::id()
    );
    if mode == "front" {
        std::env::set_var("CAPY_VERIF_TRACE", &trace_path);
    }
    hcommon::serve(|line| match mode.as_str() {
        "ops" => run_ops(line),
        "front" => run_front(line, &trace_path),
        _ => panic!("unknown mode"),
    });
    let _ = std::fs::remove_file(&trace_path);
}
