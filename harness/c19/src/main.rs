//! C19 harness.  One signature per line:  `<ret>|<p1>|<p2>|...`  (no params: `<ret>`).
//! Types: void i8 u8 i16 u16 i32 u32 i64 u64 isize usize f32 f64 bool char ptr optptr,
//! structs `{f,f,...}` with fields = scalar or `[n]field`.
//! Result: `FnAbi::verif_render` of x86_64::fn_ty_to_abi, or PANIC:<msg>.
use hir::common::{MemberTy, Name, Ty};
use internment::Intern;
use std::cell::RefCell;

thread_local! {
    static INTERNER: RefCell<interner::Interner> = RefCell::new(interner::Interner::default());
    static UID: RefCell<u32> = RefCell::new(1000);
}

fn scalar(s: &str) -> Option<Ty> {
    Some(match s {
        "void" => Ty::Void,
        "i8" => Ty::IInt(8),
        "u8" => Ty::UInt(8),
        "i16" => Ty::IInt(16),
        "u16" => Ty::UInt(16),
        "i32" => Ty::IInt(32),
        "u32" => Ty::UInt(32),
        "i64" => Ty::IInt(64),
        "u64" => Ty::UInt(64),
        "isize" => Ty::IInt(u8::MAX),
        "usize" => Ty::UInt(u8::MAX),
        "f32" => Ty::Float(32),
        "f64" => Ty::Float(64),
        "bool" => Ty::Bool,
        "char" => Ty::Char,
        "ptr" => Ty::RawPtr { mutable: false },
        "optptr" => Ty::Optional {
            sub_ty: Intern::new(Ty::RawPtr { mutable: false }),
        },
        _ => return None,
    })
}

fn split_top(s: &str) -> Vec<&str> {
    let mut depth = 0;
    let mut start = 0;
    let mut out = vec![];
    for (i, c) in s.char_indices() {
        match c {
            '{' => depth += 1,
            '}' => depth -= 1,
            ',' if depth == 0 => {
                out.push(&s[start..i]);
                start = i + 1;
            }
            _ => {}
        }
    }
    if start < s.len() {
        out.push(&s[start..]);
    }
    out
}

fn parse(s: &str) -> Intern<Ty> {
    let s = s.trim();
    if let Some(t) = scalar(s) {
        return Intern::new(t);
    }
    if let Some(rest) = s.strip_prefix('[') {
        let close = rest.find(']').expect("]");
        let n: u64 = rest[..close].parse().expect("array size");
        let sub = parse(&rest[close + 1..]);
        return Intern::new(Ty::ConcreteArray { size: n, sub_ty: sub });
    }
    if s.starts_with('{') && s.ends_with('}') {
        let inner = &s[1..s.len() - 1];
        let members = split_top(inner)
            .into_iter()
            .enumerate()
            .map(|(i, f)| MemberTy {
                name: Name(INTERNER.with(|it| it.borrow_mut().intern(&format!("f{i}")))),
                ty: parse(f),
            })
            .collect();
        let uid = UID.with(|u| {
            *u.borrow_mut() += 1;
            *u.borrow()
        });
        return Intern::new(Ty::ConcreteStruct { uid, members });
    }
    panic!("bad type {s}");
}

fn main() {
    hcommon::quiet_panics();
    hcommon::serve(|line| {
        let line = line.trim().to_string();
        let r = std::panic::catch_unwind(move || {
            let mut parts = line.split('|');
            let ret = parse(parts.next().unwrap_or("void"));
            let params: Vec<_> = parts.filter(|p| !p.trim().is_empty()).map(parse).collect();
            codegen::verif_abi::abi_of(&params, ret)
        });
        match r {
            Ok(s) => s,
            Err(e) => {
                let msg = e
                    .downcast_ref::<String>()
                    .cloned()
                    .or_else(|| e.downcast_ref::<&str>().map(|s| s.to_string()))
                    .unwrap_or_default();
                format!("PANIC:{}", msg.replace(['\n', '\t'], " "))
            }
        }
    });
}
