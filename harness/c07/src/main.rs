//! C07 harness: the pipeline of crates/capy/src/main.rs (`compile_file`) in process, ONE
//! program per invocation (codegen keeps global caches behind mutexes that a caught panic
//! poisons, so cases must not share a process):
//!
//!   h_c07 <root.capy> <mod_dir>
//!
//! reads the root file and, like main.rs, every file it imports (transitively), runs
//! lex/parse/validate/index/lower, type inference with `track_unsafe_to_compile = true`
//! (main.rs passes `!verbose_types.is_none()`, see Model/Gate.v), then applies main.rs's gate:
//! errors -> stop; otherwise evaluate the remaining comptime blocks and `codegen::compile_obj`.
//! Everything that can panic is under catch_unwind and reported as data.
//!
//! Output: one line on stdout
//!   @@C07 files=<n> errs=<n> pre=<n> tyx=<n> tynx=<n> warn=<n> mains=<n> infer=<ok|panic:..>
//!         unsafe=<0|1|-> render=<ok|panic:..> stage=<reached> cg=<skipped|ok:<bytes>|err:..|panic:..>
//!         kinds=<stage.kind,...>
//! where pre = error diagnostics of syntax/indexing/lowering, tyx = type errors attributed to an
//! expression (`TyDiagnostic.expr = Some`), tynx = type errors without an expression.
//! A Cranelift verifier error makes codegen call process::exit(1): the marker line
//! `@@C07-CODEGEN-START` without a following `@@C07` line tells the orchestrator.
mod hirdump;

use std::path::{Path, PathBuf};

use ast::AstNode;
use hir::common::{ComptimeResultMap, FileName, Fqn, Name};
use interner::Interner;
use la_arena::Arena;
use line_index::LineIndex;
use rustc_hash::FxHashMap;

fn panic_msg(e: Box<dyn std::any::Any + Send>) -> String {
    let s = if let Some(s) = e.downcast_ref::<&str>() {
        s.to_string()
    } else if let Some(s) = e.downcast_ref::<String>() {
        s.clone()
    } else {
        "<non-string panic>".to_string()
    };
    s.replace(['\n', ' ', '\t'], "_").chars().take(160).collect()
}

thread_local! {
    static LAST_PANIC_LOC: std::cell::RefCell<String> = std::cell::RefCell::new(String::new());
}

fn kind_of<T: std::fmt::Debug>(t: &T) -> String {
    let s = format!("{:?}", t);
    s.split(|c: char| !(c.is_alphanumeric() || c == '_'))
        .next()
        .unwrap_or("")
        .to_string()
}

struct Src {
    name: String,
    text: String,
    module: FileName,
    diags: Vec<(&'static str, String, diagnostics::Diagnostic)>,
}

fn guarded<T>(f: impl FnOnce() -> T) -> Result<T, String> {
    LAST_PANIC_LOC.with(|l| l.borrow_mut().clear());
    std::panic::catch_unwind(std::panic::AssertUnwindSafe(f)).map_err(|e| {
        let loc = LAST_PANIC_LOC.with(|l| l.borrow().clone());
        format!("{}@{}", panic_msg(e), loc)
    })
}

fn main() {
    std::panic::set_hook(Box::new(|info| {
        if let Some(l) = info.location() {
            let s = format!("{}:{}", l.file(), l.line());
            LAST_PANIC_LOC.with(|c| *c.borrow_mut() = s);
        }
    }));
    let args: Vec<String> = std::env::args().collect();
    let cwd = std::env::current_dir().unwrap();
    let root = cwd.join(&args[1]);
    let mod_dir = cwd.join(&args[2]);
    let render = args.get(3).map(|s| s != "norender").unwrap_or(true);
    // C21 (library-level file order): "fwd" / "rev" = load the imports of every file in ascending /
    // descending path order instead of the hash-set order main.rs uses
    let order = args.get(4).cloned().unwrap_or_default();
    // C07 traversal correspondence: "dump" as 5th or 6th argument prints the abstract HIR world
    let dump = args.iter().skip(4).any(|a| a == "dump");

    let mut interner = Interner::default();
    let mut world_index = hir::WorldIndex::default();
    let mut world_bodies = hir::WorldBodies::default();
    let mut uid_gen = uid_gen::UIDGenerator::default();

    let mut stage = "frontend";
    let mut srcs: Vec<Src> = Vec::new();
    let mut seen: FxHashMap<FileName, usize> = FxHashMap::default();
    let mut todo: Vec<PathBuf> = vec![root.clone()];
    let mut front_panic: Option<String> = None;

    // main.rs: parse the root file, then all imports, then theirs (each file once)
    while let Some(path) = todo.pop() {
        let name = path.to_string_lossy().to_string();
        let module = FileName(interner.intern(&name));
        if seen.contains_key(&module) {
            continue;
        }
        let text = match std::fs::read_to_string(&path) {
            Ok(t) => t,
            Err(e) => {
                println!("@@C07 stage=io io={}", e.to_string().replace(' ', "_"));
                return;
            }
        };
        let r = guarded(|| {
            let mut diags = Vec::new();
            let tokens = lexer::lex(&text);
            let parse = parser::parse_source_file(&tokens, &text);
            for e in parse.errors() {
                diags.push(("syntax", kind_of(&e.kind), diagnostics::Diagnostic::from_syntax(e.clone())));
            }
            let tree = parse.into_syntax_tree();
            let root = ast::Root::cast(tree.root(), &tree).unwrap();
            for d in ast::validation::validate(root, &tree) {
                diags.push(("validation", kind_of(&d.kind), diagnostics::Diagnostic::from_validation(d)));
            }
            let (index, d) = hir::index(root, &tree, &mut interner);
            for d in d {
                diags.push(("indexing", kind_of(&d.kind), diagnostics::Diagnostic::from_indexing(d)));
            }
            let (bodies, d) = hir::lower(
                root,
                &tree,
                &path,
                &index,
                &mut uid_gen,
                &mut interner,
                &mod_dir,
                false,
            );
            for d in d {
                diags.push(("lowering", kind_of(&d.kind), diagnostics::Diagnostic::from_lowering(d)));
            }
            let imports: Vec<FileName> = bodies.imports().iter().copied().collect();
            world_index.add_file(module, index);
            world_bodies.add_file(module, bodies);
            (diags, imports)
        });
        match r {
            Ok((diags, mut imports)) => {
                if order == "fwd" || order == "rev" {
                    imports.sort_by_key(|i| interner.lookup(i.0).to_string());
                    if order == "rev" {
                        imports.reverse();
                    }
                }
                for i in imports {
                    todo.push(PathBuf::from(interner.lookup(i.0)));
                }
                seen.insert(module, srcs.len());
                srcs.push(Src { name, text, module, diags });
            }
            Err(p) => {
                front_panic = Some(p);
                break;
            }
        }
    }
    if let Some(p) = front_panic {
        println!("@@C07 files={} stage=frontend infer=panic:{}", srcs.len(), p);
        return;
    }

    let entry_name = Name(interner.intern("main"));
    let main_files: Vec<FileName> = srcs
        .iter()
        .filter(|s| world_bodies[s.module].global_exists(entry_name))
        .map(|s| s.module)
        .collect();
    let entry_point = main_files.first().map(|f| Fqn { file: *f, name: entry_name });

    let mut comptime_results = ComptimeResultMap::default();
    let mut generic_values = Arena::new();
    let ptr_bits = target_lexicon::Triple::host().pointer_width().unwrap().bits();

    stage = "infer";
    let inferred = guarded(|| {
        hir_ty::InferenceCtx::new(
            &world_index,
            &world_bodies,
            &interner,
            &mut generic_values,
            |comptime, tys| {
                if let Some(r) = comptime_results.get(comptime) {
                    return r.clone();
                }
                codegen::eval_comptime_blocks(
                    codegen::Verbosity::None,
                    &mut std::iter::once(comptime),
                    &mut comptime_results,
                    &mod_dir,
                    &interner,
                    &world_bodies,
                    tys,
                    ptr_bits,
                );
                comptime_results[comptime].clone()
            },
        )
        .finish(entry_point, true)
    });

    let mut pre = 0usize;
    let mut warn = 0usize;
    let mut kinds: Vec<String> = Vec::new();
    let mut render_res = "ok".to_string();
    let line_indexes: Vec<LineIndex> = srcs.iter().map(|s| LineIndex::new(&s.text)).collect();
    for (si, s) in srcs.iter().enumerate() {
        for (st, kind, d) in &s.diags {
            if matches!(d.severity(), diagnostics::Severity::Error) {
                pre += 1;
                kinds.push(format!("{}.{}", st, kind));
            } else {
                warn += 1;
            }
            if render {
                if let Err(p) = guarded(|| d.display(&s.name, &s.text, &mod_dir, &interner, &line_indexes[si], false)) {
                    render_res = format!("panic:{}", p);
                }
            }
        }
    }

    let mut err_set: rustc_hash::FxHashSet<(FileName, la_arena::Idx<hir::Expr>)> = Default::default();
    let unsafe_log = hir_ty::verif_take_unsafe_log();
    let (tys, any_unsafe, tyx, tynx, infer_s) = match inferred {
        Ok(r) => {
            for d in &r.diagnostics {
                if d.is_error() {
                    if let Some(e) = d.expr {
                        err_set.insert((d.file, e));
                    }
                }
            }
            let mut tyx = 0usize;
            let mut tynx = 0usize;
            for d in &r.diagnostics {
                if d.is_error() {
                    if d.expr.is_some() {
                        tyx += 1;
                        kinds.push(format!("ty.{}", kind_of(&d.kind)));
                    } else {
                        tynx += 1;
                        kinds.push(format!("tynx.{}", kind_of(&d.kind)));
                    }
                } else {
                    warn += 1;
                }
            }
            if render {
                for d in r.diagnostics.iter().cloned() {
                    let si = seen.get(&d.file).copied().unwrap_or(0);
                    let s = &srcs[si];
                    if let Err(p) = guarded(|| {
                        diagnostics::Diagnostic::from_ty(d).display(&s.name, &s.text, &mod_dir, &interner, &line_indexes[si], false)
                    }) {
                        render_res = format!("panic:{}", p);
                    }
                }
            }
            (Some(r.tys), Some(r.any_were_unsafe_to_compile), tyx, tynx, "ok".to_string())
        }
        Err(p) => (None, None, 0, 0, format!("panic:{}", p)),
    };

    let errs = pre + tyx + tynx;
    let mut cg = "skipped".to_string();
    if let (Some(tys), true) = (&tys, errs == 0) {
        if main_files.len() == 1 {
            use std::io::Write;
            stage = "comptime";
            println!("@@C07-CODEGEN-START");
            std::io::stdout().flush().ok();
            let r = guarded(|| {
                codegen::eval_comptime_blocks(
                    codegen::Verbosity::None,
                    &mut world_bodies.find_comptimes(),
                    &mut comptime_results,
                    &mod_dir,
                    &interner,
                    &world_bodies,
                    tys,
                    ptr_bits,
                )
            });
            match r {
                Err(p) => cg = format!("panic:{}", p),
                Ok(()) => {
                    stage = "codegen";
                    let r = guarded(|| {
                        codegen::compile_obj(
                            codegen::Verbosity::None,
                            entry_point.unwrap().make_concrete(None),
                            &mod_dir,
                            &interner,
                            &world_bodies,
                            tys,
                            &comptime_results,
                            target_lexicon::Triple::host(),
                        )
                    });
                    cg = match r {
                        Ok(Ok(bytes)) => {
                            stage = "done";
                            let mut h: u64 = 0xcbf29ce484222325;
                            for b in &bytes {
                                h ^= *b as u64;
                                h = h.wrapping_mul(0x100000001b3);
                            }
                            format!("ok:{}:{:016x}", bytes.len(), h)
                        }
                        Ok(Err(e)) => format!("err:{}", e.to_string().replace([' ', '\n'], "_")),
                        Err(p) => format!("panic:{}", p),
                    };
                }
            }
        } else {
            cg = "nomain".to_string();
        }
    }
    let _ = Path::new("");
    if dump {
        if let Some(tys) = &tys {
            let r = guarded(|| hirdump::dump_world(&world_index, &world_bodies, tys, &err_set, &unsafe_log));
            match r {
                Ok(line) => println!("@@C07-HIR {}", line),
                Err(p) => println!("@@C07-HIR FAILED {}", p),
            }
        }
    }
    kinds.sort();
    kinds.dedup();
    println!(
        "@@C07 files={} errs={} pre={} tyx={} tynx={} warn={} mains={} infer={} unsafe={} render={} stage={} cg={} kinds={}",
        srcs.len(),
        errs,
        pre,
        tyx,
        tynx,
        warn,
        main_files.len(),
        infer_s,
        match any_unsafe {
            Some(true) => "1",
            Some(false) => "0",
            None => "-",
        },
        render_res,
        stage,
        cg,
        kinds.join(",")
    );
}
