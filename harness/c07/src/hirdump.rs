//! C07: abstraction of the real HIR + type tables into the `world` of coq/Model/Gate.v, in the text
//! protocol of ocaml/C07/driver.ml (command `hir`):
//!
//!   E <node id>*                      ids of expressions that carry an error diagnostic
//!   ; L <loc> <ext><fin><naive><def> <body list|-> <lam: B<list>|E|X|-> <ret 0|1>
//!   ; N <list> : <node>*              node = <id>,<kind>,<ty>   in the order `descendants(All)` yields them
//!        kind: s0 s1 (statement, 1 = break/continue without label) m (Missing) p (plain)
//!              g<loc>.<poly> (LocalGlobal) f<loc>.<poly> (Member of a file) c<0|1> (Call, callee poly) l (Lambda)
//!        ty:   o U (meta type known / unknown) n (no type) u (unknown) P (poly fn) F<loc> (concrete fn) t (other)
//!   ; R <loc> : <list>+               roots checked for a finished location (body, then type annotation; or the lambda)
//!   ; K <loc>                         finished location skipped as extern
//!   ; V <loc>=<0|1|2>*                what the real tracking loop answered (hook `verif_take_unsafe_log`)
//!   ; X <reason>                      something the model does not cover was met (case is skipped)
//! R / K appear in the iteration order of `all_finished_locations`.
use hir::common::{ConcreteLoc, FileName, Fqn, Ty};
use hir::{Descendant, DescentOpts, Expr, Stmt};
use la_arena::Idx;
use rustc_hash::{FxHashMap, FxHashSet};

struct D<'a> {
    wi: &'a hir::WorldIndex,
    wb: &'a hir::WorldBodies,
    tys: &'a hir_ty::WorldTys,
    errs: &'a FxHashSet<(FileName, Idx<Expr>)>,
    finished: FxHashSet<ConcreteLoc>,
    locs: FxHashMap<ConcreteLoc, usize>,
    loc_order: Vec<ConcreteLoc>,
    lists: FxHashMap<(ConcreteLoc, Idx<Expr>), usize>,
    list_text: Vec<String>,
    node_ids: FxHashMap<(FileName, Idx<Expr>), usize>,
    next_node: usize,
    unmodelled: Vec<String>,
    err_ids: Vec<usize>,
}

impl<'a> D<'a> {
    fn loc_id(&mut self, l: ConcreteLoc) -> usize {
        if let Some(i) = self.locs.get(&l) {
            return *i;
        }
        let i = self.locs.len();
        self.locs.insert(l, i);
        self.loc_order.push(l);
        i
    }

    fn node_id(&mut self, file: FileName, e: Idx<Expr>) -> usize {
        if let Some(i) = self.node_ids.get(&(file, e)) {
            return *i;
        }
        self.next_node += 1;
        let i = self.next_node;
        self.node_ids.insert((file, e), i);
        if self.errs.contains(&(file, e)) {
            self.err_ids.push(i);
        }
        i
    }

    fn list_of(&mut self, loc: ConcreteLoc, root: Idx<Expr>) -> usize {
        if let Some(i) = self.lists.get(&(loc, root)) {
            return *i;
        }
        let idx = self.list_text.len();
        self.lists.insert((loc, root), idx);
        self.list_text.push(String::new());
        let file = loc.file();
        let wb = self.wb;
        let bodies = &wb[file];
        let descs: Vec<Descendant> = bodies
            .descendants(
                root,
                DescentOpts::All {
                    include_lambdas: false,
                    include_post_exprs: false,
                    include_post_stmts: false,
                },
            )
            .collect();
        if !self.tys.has_area(loc) {
            self.unmodelled.push("location-without-area".to_string());
        }
        let mut out = String::new();
        for d in descs {
            match d {
                Descendant::PreStmt(s) => {
                    self.next_node += 1;
                    let j = match &bodies[s] {
                        Stmt::Break { label, .. } | Stmt::Continue { label, .. } => label.is_none(),
                        _ => false,
                    };
                    out.push_str(&format!(" {},s{},t", self.next_node, j as u8));
                }
                Descendant::PreExpr(e) => {
                    let id = self.node_id(file, e);
                    let area = if self.tys.has_area(loc) { Some(&self.tys[loc]) } else { None };
                    let mut ty_s = "n".to_string();
                    let mut other = false;
                    if let Some(area) = area {
                        if let Some(m) = area.meta_ty(e) {
                            ty_s = if m.is_unknown() { "U".into() } else { "o".into() };
                        } else if let Some(t) = area.try_get_expr(e) {
                            if t.is_unknown() {
                                ty_s = "u".into();
                            } else {
                                match t.as_ref() {
                                    Ty::NaivePolymorphicFunction { .. } => ty_s = "P".into(),
                                    Ty::ConcreteFunction { fn_loc, .. } => {
                                        let l = self.loc_id(fn_loc.wrap());
                                        ty_s = format!("F{}", l);
                                    }
                                    _ => {
                                        ty_s = "t".into();
                                        other = true;
                                    }
                                }
                            }
                        }
                    }
                    let mut kind = "p".to_string();
                    match &bodies[e] {
                        Expr::Missing => kind = "m".into(),
                        Expr::LocalGlobal(name) => {
                            let fqn = Fqn { file, name: name.name };
                            // the traversal asserts !has_polymorphic_body (and the type arms caught fn types)
                            let poly = if other { wb.has_polymorphic_body(fqn.wrap()) } else { false };
                            let g = self.loc_id(fqn.make_concrete(None).wrap());
                            kind = format!("g{}.{}", g, poly as u8);
                        }
                        Expr::Member { previous, name } => {
                            if other {
                                match area.and_then(|a| a.try_get_expr(*previous)) {
                                    Some(pt) => {
                                        if let Ty::File(f) = pt.as_ref() {
                                            let fqn = Fqn { file: *f, name: name.name };
                                            let poly = matches!(
                                                self.tys.try_naive(fqn.wrap(), wb),
                                                Err(hir_ty::NaiveLookupErr::IsPolymorphic)
                                            );
                                            let g = self.loc_id(fqn.make_concrete(None).wrap());
                                            kind = format!("f{}.{}", g, poly as u8);
                                        }
                                    }
                                    None => self.unmodelled.push("member-previous-untyped".to_string()),
                                }
                            }
                        }
                        Expr::Call { callee, .. } => {
                            if other {
                                match area.and_then(|a| a.try_get_expr(*callee)) {
                                    Some(ct) => {
                                        let p = matches!(ct.as_ref(), Ty::NaivePolymorphicFunction { .. });
                                        kind = format!("c{}", p as u8);
                                    }
                                    None => self.unmodelled.push("callee-untyped".to_string()),
                                }
                            } else {
                                kind = "c0".into();
                            }
                        }
                        Expr::Lambda(_) => kind = "l".into(),
                        _ => {}
                    }
                    out.push_str(&format!(" {},{},{}", id, kind, ty_s));
                }
                _ => self.unmodelled.push("post-descendant".to_string()),
            }
        }
        self.list_text[idx] = out;
        idx
    }

    fn describe(&mut self, l: ConcreteLoc) -> String {
        let id = self.loc_id(l);
        let fin = self.finished.contains(&l) as u8;
        let wb = self.wb;
        if self.wi.get_file(l.file()).is_none() {
            self.unmodelled.push("location-in-unknown-file".to_string());
            return format!("L {} 0{}00 - - 0", id, fin);
        }
        match l {
            ConcreteLoc::Global(g) => {
                let naive = g.to_naive();
                let exists = wb[naive.file].global_exists(naive.name);
                let ext = exists && wb.global_is_extern(naive);
                let found = self.tys.try_naive(naive.wrap_if(exists), wb);
                let naive_ok = found.is_ok();
                let def = matches!(self.wi.definition(naive), hir::DefinitionStatus::Defined);
                let body = match wb[naive.file].try_global_body(naive.name) {
                    Some(b) => format!("{}", self.list_of(l, b)),
                    None => "-".to_string(),
                };
                format!("L {} {}{}{}{} {} - 0", id, ext as u8, fin, naive_ok as u8, def as u8, body)
            }
            ConcreteLoc::Lambda(lam) => {
                let bodies = &wb[lam.file()];
                match &bodies[lam.expr()] {
                    Expr::Lambda(idx) => {
                        let lambda = &bodies[*idx];
                        let ret = lambda.return_ty.is_some() as u8;
                        let b = match lambda.body {
                            hir::LambdaBody::Block(b) => format!("B{}", self.list_of(l, b)),
                            hir::LambdaBody::Empty => "E".to_string(),
                            _ => "X".to_string(),
                        };
                        format!("L {} 0{}00 - {} {}", id, fin, b, ret)
                    }
                    _ => format!("L {} 0{}00 - - 0", id, fin),
                }
            }
        }
    }
}

trait WrapIf {
    fn wrap_if(self, exists: bool) -> hir::common::NaiveLoc;
}
impl WrapIf for hir::common::NaiveGlobalLoc {
    fn wrap_if(self, _exists: bool) -> hir::common::NaiveLoc {
        self.wrap()
    }
}

pub fn dump_world(
    wi: &hir::WorldIndex,
    wb: &hir::WorldBodies,
    tys: &hir_ty::WorldTys,
    errs: &FxHashSet<(FileName, Idx<Expr>)>,
    log: &[(ConcreteLoc, u8)],
) -> String {
    let mut d = D {
        wi,
        wb,
        tys,
        errs,
        finished: log.iter().map(|(l, _)| *l).collect(),
        locs: Default::default(),
        loc_order: Vec::new(),
        lists: Default::default(),
        list_text: Vec::new(),
        node_ids: Default::default(),
        next_node: 0,
        unmodelled: Vec::new(),
        err_ids: Vec::new(),
    };
    let mut roots = Vec::new();
    let mut verdicts = String::new();
    for (l, v) in log {
        let id = d.loc_id(*l);
        verdicts.push_str(&format!(" {}={}", id, v));
        if *v == 2 {
            roots.push(format!("K {}", id));
            continue;
        }
        match l {
            ConcreteLoc::Global(g) => {
                let naive = g.to_naive();
                let body = wb.global_body(naive);
                let mut s = format!("R {} : {}", id, d.list_of(*l, body));
                if let Some(t) = wb.global_ty(naive) {
                    s.push_str(&format!(" {}", d.list_of(*l, t)));
                }
                roots.push(s);
            }
            ConcreteLoc::Lambda(lam) => {
                roots.push(format!("R {} : {}", id, d.list_of(*l, lam.expr())));
            }
        }
    }
    // describe every location that is referenced (the set grows while describing)
    let mut descr = Vec::new();
    let mut i = 0;
    while i < d.loc_order.len() {
        let l = d.loc_order[i];
        descr.push(d.describe(l));
        i += 1;
    }
    let mut out = String::from("E");
    for e in &d.err_ids {
        out.push_str(&format!(" {}", e));
    }
    for s in descr {
        out.push_str(" ; ");
        out.push_str(&s);
    }
    for (i, t) in d.list_text.iter().enumerate() {
        out.push_str(&format!(" ; N {} :{}", i, t));
    }
    for r in roots {
        out.push_str(" ; ");
        out.push_str(&r);
    }
    out.push_str(&format!(" ; V{}", verdicts));
    d.unmodelled.sort();
    d.unmodelled.dedup();
    for u in &d.unmodelled {
        out.push_str(&format!(" ; X {}", u));
    }
    out
}
