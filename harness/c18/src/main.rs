//! C18 harness. `h_c18 ids <pointer bits>`: one line = type descriptions separated
//! by " ; " (grammar: ../c17/src/typarse.rs) -> the ids that `to_type_id` assigns
//! to them in this order with a fresh MetaTyData, blank separated ("PANIC" for a
//! panicking call), or "BAD:<msg>".
#[path = "../../c17/src/typarse.rs"]
mod typarse;
use codegen::verif_layout as V;

fn main() {
    let mode = std::env::args().nth(1).unwrap_or_default();
    let pw: u32 = std::env::args().nth(2).and_then(|s| s.parse().ok()).unwrap_or(64);
    hcommon::serve(|line| match mode.as_str() {
        "ids" => {
            let mut tys = Vec::new();
            for part in line.split(';') {
                if part.trim().is_empty() {
                    continue;
                }
                match typarse::parse_ty(part) {
                    Ok(t) => tys.push(t),
                    Err(e) => return format!("BAD:{e}"),
                }
            }
            V::type_ids_of(&tys, pw)
                .iter()
                .map(|r| match r {
                    Ok(id) => id.to_string(),
                    Err(_) => "PANIC".to_string(),
                })
                .collect::<Vec<_>>()
                .join(" ")
        }
        _ => panic!("unknown mode"),
    });
}
