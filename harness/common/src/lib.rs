//! Shared harness code: an in-process front end mirroring crates/capy/src/main.rs
//! and source.rs (lex, parse, validate, index, lower, infer) over an in-memory
//! ("fake file system") set of files, plus small helpers (hex, splitmix).
use std::path::Path;

use ast::AstNode;
use hir::common::{ComptimeResultMap, FileName, Fqn, Name};
use interner::Interner;
use la_arena::Arena;
use line_index::LineIndex;

pub fn hex_decode(s: &str) -> Vec<u8> {
    (0..s.len() / 2)
        .map(|i| u8::from_str_radix(&s[2 * i..2 * i + 2], 16).unwrap())
        .collect()
}
pub fn hex_encode(b: &[u8]) -> String {
    b.iter().map(|x| format!("{:02x}", x)).collect()
}

pub struct DiagOut {
    pub stage: &'static str, // syntax | validation | indexing | lowering | ty
    pub file: usize,
    pub is_error: bool,
    pub start: u32,
    pub end: u32,
    pub kind: String,
    /// rendered lines (no colours), or Err(panic message) when display panicked
    pub rendered: Result<Vec<String>, String>,
}

pub struct FrontOut {
    pub diags: Vec<DiagOut>,
    pub any_unsafe: bool,
    pub has_errors: bool,
    /// panic message of type inference, if it panicked
    pub infer_panic: Option<String>,
}

fn panic_msg(e: Box<dyn std::any::Any + Send>) -> String {
    if let Some(s) = e.downcast_ref::<&str>() {
        s.to_string()
    } else if let Some(s) = e.downcast_ref::<String>() {
        s.clone()
    } else {
        "<non-string panic>".to_string()
    }
}

fn kind_of<T: std::fmt::Debug>(t: &T) -> String {
    let s = format!("{:?}", t);
    s.split(|c: char| !(c.is_alphanumeric() || c == '_'))
        .next()
        .unwrap_or("")
        .to_string()
}

/// Runs the front end on `files` (name, contents); the last file named
/// "main.capy" (if any) provides the entry point `main`.
/// `eval_comptime`: run comptime blocks through the JIT (as main.rs does).
pub fn frontend(files: &[(String, String)], eval_comptime: bool, render: bool) -> FrontOut {
    let mut interner = Interner::default();
    let mut world_index = hir::WorldIndex::default();
    let mut uid_gen = uid_gen::UIDGenerator::default();
    let mut world_bodies = hir::WorldBodies::default();
    let mod_dir = Path::new("");

    let mut raw: Vec<(usize, &'static str, String, diagnostics::Diagnostic)> = Vec::new();
    let mut modules = Vec::new();

    for (fi, (name, text)) in files.iter().enumerate() {
        let tokens = lexer::lex(text);
        let parse = parser::parse_source_file(&tokens, text);
        for e in parse.errors() {
            raw.push((fi, "syntax", kind_of(&e.kind), diagnostics::Diagnostic::from_syntax(e.clone())));
        }
        let tree = parse.into_syntax_tree();
        let root = ast::Root::cast(tree.root(), &tree).unwrap();
        for d in ast::validation::validate(root, &tree) {
            raw.push((fi, "validation", kind_of(&d.kind), diagnostics::Diagnostic::from_validation(d)));
        }
        let (index, d) = hir::index(root, &tree, &mut interner);
        for d in d {
            raw.push((fi, "indexing", kind_of(&d.kind), diagnostics::Diagnostic::from_indexing(d)));
        }
        let module = FileName(interner.intern(name));
        let (bodies, d) = hir::lower(
            root,
            &tree,
            Path::new(name),
            &index,
            &mut uid_gen,
            &mut interner,
            mod_dir,
            true,
        );
        for d in d {
            raw.push((fi, "lowering", kind_of(&d.kind), diagnostics::Diagnostic::from_lowering(d)));
        }
        world_index.add_file(module, index);
        world_bodies.add_file(module, bodies);
        modules.push(module);
    }

    let main_idx = files.iter().rposition(|(n, _)| n == "main.capy");
    let entry_point = main_idx.and_then(|i| {
        let name = Name(interner.intern("main"));
        if world_bodies[modules[i]].global_exists(name) {
            Some(Fqn { file: modules[i], name })
        } else {
            None
        }
    });

    let mut comptime_results = ComptimeResultMap::default();
    let mut generic_values = Arena::new();
    let mut any_unsafe = false;
    let mut infer_panic = None;

    let res = std::panic::catch_unwind(std::panic::AssertUnwindSafe(|| {
        hir_ty::InferenceCtx::new(
            &world_index,
            &world_bodies,
            &interner,
            &mut generic_values,
            |comptime, tys| {
                if !eval_comptime {
                    panic!("VERIF-COMPTIME-DISABLED");
                }
                if let Some(r) = comptime_results.get(comptime) {
                    return r.clone();
                }
                codegen::eval_comptime_blocks(
                    codegen::Verbosity::None,
                    &mut std::iter::once(comptime),
                    &mut comptime_results,
                    mod_dir,
                    &interner,
                    &world_bodies,
                    tys,
                    target_lexicon::Triple::host().pointer_width().unwrap().bits(),
                );
                comptime_results[comptime].clone()
            },
        )
        .finish(entry_point, true)
    }));
    match res {
        Ok(r) => {
            any_unsafe = r.any_were_unsafe_to_compile;
            for d in r.diagnostics {
                let fi = modules.iter().position(|m| *m == d.file).unwrap_or(0);
                raw.push((fi, "ty", kind_of(&d.kind), diagnostics::Diagnostic::from_ty(d)));
            }
        }
        Err(e) => infer_panic = Some(panic_msg(e)),
    }

    let line_indexes: Vec<LineIndex> = files.iter().map(|(_, t)| LineIndex::new(t)).collect();
    let mut has_errors = false;
    let mut diags = Vec::new();
    for (fi, stage, kind, d) in raw {
        let range = d.range();
        let is_error = matches!(d.severity(), diagnostics::Severity::Error);
        has_errors |= is_error;
        let rendered = if render {
            std::panic::catch_unwind(std::panic::AssertUnwindSafe(|| {
                d.display(&files[fi].0, &files[fi].1, mod_dir, &interner, &line_indexes[fi], false)
            }))
            .map_err(panic_msg)
        } else {
            Ok(Vec::new())
        };
        diags.push(DiagOut {
            stage,
            file: fi,
            is_error,
            start: range.start().into(),
            end: range.end().into(),
            kind,
            rendered,
        });
    }
    FrontOut { diags, any_unsafe, has_errors, infer_panic }
}

/// Silence the default panic hook (panics are caught and reported as data).
pub fn quiet_panics() {
    std::panic::set_hook(Box::new(|_| {}));
}

/// Line server used by every harness binary: reads stdin line by line, writes
/// "#<idx>\t<result>" to the file named by $VERIF_OUT (or stdout), flushing after
/// every case so a crash of the process loses only the case being executed.
/// (stdout itself is polluted by println!s inside the compiler.)
pub fn serve<F: FnMut(&str) -> String>(mut f: F) {
    use std::io::{BufRead, Write};
    quiet_panics();
    let mut out: Box<dyn Write> = match std::env::var("VERIF_OUT") {
        Ok(p) => Box::new(std::fs::OpenOptions::new().create(true).append(true).open(p).unwrap()),
        Err(_) => Box::new(std::io::stdout()),
    };
    let stdin = std::io::stdin();
    for (idx, line) in stdin.lock().lines().enumerate() {
        let line = line.unwrap();
        let r = f(line.trim_end_matches('\n'));
        let r = r.replace('\n', "\\n");
        writeln!(out, "#{}\t{}", idx, r).unwrap();
        out.flush().unwrap();
    }
}
