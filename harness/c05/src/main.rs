//! C05 harness: one hex-encoded source file per line.  Lexes, parses, indexes
//! and lowers it with `hir::lower` (fake file system) and dumps, for every
//! lowered expression that can be the result of `lower_var_ref`, its source
//! range and resolution:
//!   <start>:<end>:L<def range start>      Expr::Local
//!   <start>:<end>:S<arm variant start>    Expr::SwitchArgument
//!   <start>:<end>:P<param range start>    Expr::Param
//!   <start>:<end>:C<param range start>    Expr::ComptimeParam
//!   <start>:<end>:I<param range start>    Expr::InlineParam
//!   <start>:<end>:G<name>                 Expr::LocalGlobal
//!   <start>:<end>:T / Z / M               PrimitiveTy / Nil / Missing
//! followed by the lowering diagnostics `D<start>:<end>:<Kind>` and
//! `E<n>` = number of syntax errors.  A panic is reported as `PANIC:<msg>`.
use std::path::Path;

use ast::AstNode;
use hir::Expr;
use rustc_hash::FxHashMap;

fn main() {
    hcommon::serve(|line| {
        let bytes = hcommon::hex_decode(line.trim());
        let text = match String::from_utf8(bytes) {
            Ok(t) => t,
            Err(_) => return "NOTUTF8".to_string(),
        };
        let r = std::panic::catch_unwind(|| run(&text));
        match r {
            Ok(s) => s,
            Err(e) => {
                let msg = if let Some(s) = e.downcast_ref::<&str>() {
                    s.to_string()
                } else if let Some(s) = e.downcast_ref::<String>() {
                    s.clone()
                } else {
                    "?".to_string()
                };
                format!("PANIC:{}", msg)
            }
        }
    });
}

fn run(text: &str) -> String {
    let mut interner = interner::Interner::default();
    let mut uid_gen = uid_gen::UIDGenerator::default();
    let tokens = lexer::lex(text);
    let parse = parser::parse_source_file(&tokens, text);
    let nerr = parse.errors().len();
    let tree = parse.into_syntax_tree();
    let root = ast::Root::cast(tree.root(), &tree).unwrap();
    let (index, _d) = hir::index(root, &tree, &mut interner);
    let (bodies, diags) = hir::lower(
        root,
        &tree,
        Path::new("main.capy"),
        &index,
        &mut uid_gen,
        &mut interner,
        Path::new(""),
        true,
    );
    // switch argument id -> start of its arm's variant
    let mut arm_of: FxHashMap<la_arena::Idx<hir::SwitchArg>, u32> = FxHashMap::default();
    for (_, e, _) in bodies.verif_exprs() {
        if let Expr::Switch { arms, default, .. } = e {
            for arm in arms.iter().chain(default.iter()) {
                if let Some(a) = arm.switch_arg {
                    arm_of.insert(a, arm.variant_range.start().into());
                }
            }
        }
    }
    let mut out = String::new();
    for (_, e, range) in bodies.verif_exprs() {
        let Some(range) = range else { continue };
        let (s, t): (u32, u32) = (range.start().into(), range.end().into());
        let r = match e {
            Expr::Local(def) => format!("L{}", u32::from(bodies[*def].range.start())),
            Expr::SwitchArgument(a) => match arm_of.get(a) {
                Some(p) => format!("S{}", p),
                None => "S?".to_string(),
            },
            Expr::Param { range, .. } => format!("P{}", u32::from(range.start())),
            Expr::ComptimeParam { range, .. } => format!("C{}", u32::from(range.start())),
            Expr::InlineParam { range, .. } => format!("I{}", u32::from(range.start())),
            Expr::LocalGlobal(n) => format!("G{}", interner.lookup(n.name.0)),
            Expr::PrimitiveTy(_) => "T".to_string(),
            Expr::Nil => "Z".to_string(),
            Expr::Missing => "M".to_string(),
            _ => continue,
        };
        out.push_str(&format!("{}:{}:{} ", s, t, r));
    }
    for d in &diags {
        let k = format!("{:?}", d.kind);
        let k = k
            .split(|c: char| !(c.is_alphanumeric() || c == '_'))
            .next()
            .unwrap_or("")
            .to_string();
        out.push_str(&format!(
            "D{}:{}:{} ",
            u32::from(d.range.start()),
            u32::from(d.range.end()),
            k
        ));
    }
    out.push_str(&format!("E{}", nerr));
    out
}
